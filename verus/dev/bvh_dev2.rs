use vstd::prelude::*;
verus! {

pub struct AABB { pub opaque: u8 }

pub trait Bounded {
    fn aabb(&self) -> AABB;
}

pub struct BVH<T> {
    pub root: Option<T>,
}

enum Side {
    L,
    R,
}

enum NodeType {
    Leaf,
    Node,
}

type NodeId = usize;
struct TreeElement<T>(NodeId, NodeType, Side, Option<NodeId>, Option<Vec<T>>);

spec fn elen<T>(e: TreeElement<T>) -> int {
    match e.4 {
        Some(v) => v@.len() as int,
        None => 0,
    }
}

spec fn total<T>(s: Seq<TreeElement<T>>) -> int
    decreases s.len(),
{
    if s.len() == 0 { 0 } else { total(s.drop_last()) + elen(s.last()) }
}

spec fn weight<T>(s: Seq<TreeElement<T>>) -> int
    decreases s.len(),
{
    if s.len() == 0 { 0 } else { weight(s.drop_last()) + 2 * elen(s.last()) - 1 }
}

spec fn all_nonempty<T>(s: Seq<TreeElement<T>>) -> bool {
    forall|i: int| 0 <= i < s.len() ==> (#[trigger] s[i]).4.is_some() && elen(s[i]) >= 1
}

// every Leaf entry carries between 1 and `max` elements, every Node entry carries none
spec fn shapes_ok<T>(s: Seq<TreeElement<T>>, max: int) -> bool {
    forall|i: int| 0 <= i < s.len() ==> match (#[trigger] s[i]).1 {
        NodeType::Leaf => s[i].4.is_some() && 1 <= elen(s[i]) <= max,
        NodeType::Node => s[i].4.is_none(),
    }
}

// entry 0 is the parentless root with id 0; every other entry names as parent the id of an EARLIER Node entry
spec fn node_before<T>(s: Seq<TreeElement<T>>, i: int, pid: NodeId) -> bool {
    exists|j: int| 0 <= j < i && j < s.len() && (#[trigger] s[j]).0 == pid && s[j].1 is Node
}

spec fn entry_ok<T>(s: Seq<TreeElement<T>>, i: int) -> bool {
    s[i].3.is_some() && node_before(s, i, s[i].3.unwrap())
}

#[verifier::opaque]
spec fn parents_ok<T>(s: Seq<TreeElement<T>>) -> bool {
    s.len() >= 1 && s[0].0 == 0 && s[0].3.is_none()
    && forall|i: int| 1 <= i < s.len() ==> #[trigger] entry_ok(s, i)
}

// every pending entry names as parent the id of a Node entry already in the node list
#[verifier::opaque]
spec fn pending_parents_ok<T>(p: Seq<TreeElement<T>>, s: Seq<TreeElement<T>>) -> bool {
    forall|k: int| 0 <= k < p.len() ==> (#[trigger] p[k]).3.is_some()
        && exists|j: int| 0 <= j < s.len() && (#[trigger] s[j]).0 == p[k].3.unwrap() && s[j].1 is Node
}

spec fn has_node<T>(s: Seq<TreeElement<T>>, pid: NodeId) -> bool {
    exists|j: int| 0 <= j < s.len() && (#[trigger] s[j]).0 == pid && s[j].1 is Node
}

proof fn lemma_has_node_push<T>(s: Seq<TreeElement<T>>, e: TreeElement<T>, pid: NodeId)
    requires has_node(s, pid),
    ensures has_node(s.push(e), pid),
{
    let j = choose|j: int| 0 <= j < s.len() && (#[trigger] s[j]).0 == pid && s[j].1 is Node;
    assert(s.push(e)[j] == s[j]);
}

proof fn lemma_has_node_last<T>(s: Seq<TreeElement<T>>, e: TreeElement<T>)
    requires e.1 is Node,
    ensures has_node(s.push(e), e.0),
{
    assert(s.push(e)[s.len() as int] == e);
}

proof fn lemma_parents_init<T>(s: Seq<TreeElement<T>>)
    requires s.len() == 1, s[0].0 == 0, s[0].3.is_none(),
    ensures parents_ok(s),
{
    reveal(parents_ok);
}

proof fn lemma_parents_root<T>(s: Seq<TreeElement<T>>)
    requires parents_ok(s),
    ensures s.len() >= 1, s[0].0 == 0, s[0].3.is_none(),
{
    reveal(parents_ok);
}

proof fn lemma_entry_ok_push<T>(s: Seq<TreeElement<T>>, e: TreeElement<T>, i: int)
    requires 0 <= i < s.len(), entry_ok(s, i),
    ensures entry_ok(s.push(e), i),
{
    let t = s.push(e);
    assert(t[i] == s[i]);
    let j = choose|j: int| 0 <= j < i && j < s.len() && (#[trigger] s[j]).0 == s[i].3.unwrap() && s[j].1 is Node;
    assert(t[j] == s[j]);
}

proof fn lemma_entry_ok_last<T>(s: Seq<TreeElement<T>>, e: TreeElement<T>)
    requires e.3.is_some(), has_node(s, e.3.unwrap()),
    ensures entry_ok(s.push(e), s.len() as int),
{
    let t = s.push(e);
    assert(t[s.len() as int] == e);
    let j = choose|j: int| 0 <= j < s.len() && (#[trigger] s[j]).0 == e.3.unwrap() && s[j].1 is Node;
    assert(t[j] == s[j]);
}

proof fn lemma_parents_push<T>(s: Seq<TreeElement<T>>, e: TreeElement<T>)
    requires parents_ok(s), e.3.is_some(), has_node(s, e.3.unwrap()),
    ensures parents_ok(s.push(e)),
{
    reveal(parents_ok);
    let t = s.push(e);
    assert(t[0] == s[0]);
    assert forall|i: int| 1 <= i < t.len() implies #[trigger] entry_ok(t, i) by {
        if i < s.len() {
            assert(entry_ok(s, i));
            lemma_entry_ok_push(s, e, i);
        } else {
            lemma_entry_ok_last(s, e);
        }
    }
}

proof fn lemma_pending_empty<T>(s: Seq<TreeElement<T>>)
    ensures pending_parents_ok(Seq::<TreeElement<T>>::empty(), s),
{
    reveal(pending_parents_ok);
}

proof fn lemma_pending_grow_list<T>(p: Seq<TreeElement<T>>, s: Seq<TreeElement<T>>, e: TreeElement<T>)
    requires pending_parents_ok(p, s),
    ensures pending_parents_ok(p, s.push(e)),
{
    reveal(pending_parents_ok);
    let t = s.push(e);
    assert forall|k: int| 0 <= k < p.len() implies (#[trigger] p[k]).3.is_some()
        && exists|j: int| 0 <= j < t.len() && (#[trigger] t[j]).0 == p[k].3.unwrap() && t[j].1 is Node by {
        let j = choose|j: int| 0 <= j < s.len() && (#[trigger] s[j]).0 == p[k].3.unwrap() && s[j].1 is Node;
        assert(t[j] == s[j]);
    }
}

proof fn lemma_pending_push<T>(p: Seq<TreeElement<T>>, s: Seq<TreeElement<T>>, e: TreeElement<T>)
    requires pending_parents_ok(p, s), e.3.is_some(), has_node(s, e.3.unwrap()),
    ensures pending_parents_ok(p.push(e), s),
{
    reveal(pending_parents_ok);
    let q = p.push(e);
    assert forall|k: int| 0 <= k < q.len() implies (#[trigger] q[k]).3.is_some()
        && exists|j: int| 0 <= j < s.len() && (#[trigger] s[j]).0 == q[k].3.unwrap() && s[j].1 is Node by {
        if k < p.len() { assert(q[k] == p[k]); } else { assert(q[k] == e); }
    }
}

proof fn lemma_pending_pop<T>(p: Seq<TreeElement<T>>, s: Seq<TreeElement<T>>)
    requires pending_parents_ok(p, s), p.len() >= 1,
    ensures pending_parents_ok(p.drop_last(), s), p.last().3.is_some(), has_node(s, p.last().3.unwrap()),
{
    reveal(pending_parents_ok);
    let q = p.drop_last();
    assert(p.last() == p[p.len() - 1]);
    assert forall|k: int| 0 <= k < q.len() implies (#[trigger] q[k]).3.is_some()
        && exists|j: int| 0 <= j < s.len() && (#[trigger] s[j]).0 == q[k].3.unwrap() && s[j].1 is Node by {
        assert(q[k] == p[k]);
    }
}


// ---- ids: pairwise distinct, because build_from_node_list keys its maps by them ----
#[verifier::opaque]
spec fn ids_ok<T>(nl: Seq<TreeElement<T>>, p: Seq<TreeElement<T>>, bound: int) -> bool {
    (forall|i: int, j: int| 0 <= i < j < nl.len() ==> (#[trigger] nl[i]).0 != (#[trigger] nl[j]).0)
    && (forall|i: int, j: int| 0 <= i < j < p.len() ==> (#[trigger] p[i]).0 != (#[trigger] p[j]).0)
    && (forall|i: int, k: int| 0 <= i < nl.len() && 0 <= k < p.len() ==> (#[trigger] nl[i]).0 != (#[trigger] p[k]).0)
    && (forall|i: int| 0 <= i < nl.len() ==> (#[trigger] nl[i]).0 <= bound)
    && (forall|k: int| 0 <= k < p.len() ==> (#[trigger] p[k]).0 <= bound)
}

spec fn ids_distinct<T>(nl: Seq<TreeElement<T>>) -> bool {
    forall|i: int, j: int| 0 <= i < j < nl.len() ==> (#[trigger] nl[i]).0 != (#[trigger] nl[j]).0
}

proof fn lemma_ids_init<T>(nl: Seq<TreeElement<T>>, p: Seq<TreeElement<T>>)
    requires nl.len() == 1, nl[0].0 == 0, p.len() == 2, p[0].0 == 2, p[1].0 == 1,
    ensures ids_ok(nl, p, 2),
{
    reveal(ids_ok);
}

// move the last pending entry (same id) to the end of the node list
proof fn lemma_ids_move<T>(nl: Seq<TreeElement<T>>, p: Seq<TreeElement<T>>, x: TreeElement<T>, bound: int)
    requires ids_ok(nl, p, bound), p.len() >= 1, x.0 == p.last().0,
    ensures ids_ok(nl.push(x), p.drop_last(), bound),
{
    reveal(ids_ok);
    let nl2 = nl.push(x);
    let p2 = p.drop_last();
    let last = p.len() - 1;
    assert(p.last() == p[last]);
    assert forall|i: int, j: int| 0 <= i < j < nl2.len() implies (#[trigger] nl2[i]).0 != (#[trigger] nl2[j]).0 by {
        if j < nl.len() { assert(nl2[i] == nl[i]); assert(nl2[j] == nl[j]); }
        else { assert(nl2[i] == nl[i]); assert(nl2[j] == x); assert(nl[i].0 != p[last].0); }
    }
    assert forall|i: int, j: int| 0 <= i < j < p2.len() implies (#[trigger] p2[i]).0 != (#[trigger] p2[j]).0 by {
        assert(p2[i] == p[i]); assert(p2[j] == p[j]);
    }
    assert forall|i: int, k: int| 0 <= i < nl2.len() && 0 <= k < p2.len() implies (#[trigger] nl2[i]).0 != (#[trigger] p2[k]).0 by {
        assert(p2[k] == p[k]);
        if i < nl.len() { assert(nl2[i] == nl[i]); } else { assert(nl2[i] == x); assert(p[k].0 != p[last].0); }
    }
    assert forall|i: int| 0 <= i < nl2.len() implies (#[trigger] nl2[i]).0 <= bound by {
        if i < nl.len() { assert(nl2[i] == nl[i]); } else { assert(nl2[i] == x); assert(p[last].0 <= bound); }
    }
    assert forall|k: int| 0 <= k < p2.len() implies (#[trigger] p2[k]).0 <= bound by { assert(p2[k] == p[k]); }
}

// two fresh ids above the bound join the pending stack
proof fn lemma_ids_fresh<T>(nl: Seq<TreeElement<T>>, p: Seq<TreeElement<T>>, a: TreeElement<T>, b: TreeElement<T>, bound: int)
    requires ids_ok(nl, p, bound), a.0 == bound + 2, b.0 == bound + 1,
    ensures ids_ok(nl, p.push(a).push(b), bound + 2),
{
    reveal(ids_ok);
    let p2 = p.push(a).push(b);
    assert forall|i: int, j: int| 0 <= i < j < p2.len() implies (#[trigger] p2[i]).0 != (#[trigger] p2[j]).0 by {
        if i < p.len() { assert(p2[i] == p[i]); } else if i == p.len() { assert(p2[i] == a); } else { assert(p2[i] == b); }
        if j < p.len() { assert(p2[j] == p[j]); } else if j == p.len() { assert(p2[j] == a); } else { assert(p2[j] == b); }
    }
    assert forall|i: int, k: int| 0 <= i < nl.len() && 0 <= k < p2.len() implies (#[trigger] nl[i]).0 != (#[trigger] p2[k]).0 by {
        if k < p.len() { assert(p2[k] == p[k]); } else if k == p.len() { assert(p2[k] == a); } else { assert(p2[k] == b); }
    }
    assert forall|k: int| 0 <= k < p2.len() implies (#[trigger] p2[k]).0 <= bound + 2 by {
        if k < p.len() { assert(p2[k] == p[k]); } else if k == p.len() { assert(p2[k] == a); } else { assert(p2[k] == b); }
    }
}

proof fn lemma_ids_result<T>(nl: Seq<TreeElement<T>>, p: Seq<TreeElement<T>>, bound: int)
    requires ids_ok(nl, p, bound),
    ensures ids_distinct(nl),
{
    reveal(ids_ok);
}

proof fn lemma_ids_single<T>(nl: Seq<TreeElement<T>>)
    requires nl.len() == 1,
    ensures ids_distinct(nl),
{
}

proof fn lemma_shapes_push<T>(s: Seq<TreeElement<T>>, e: TreeElement<T>, max: int)
    requires shapes_ok(s, max),
        match e.1 { NodeType::Leaf => e.4.is_some() && 1 <= elen(e) <= max, NodeType::Node => e.4.is_none() },
    ensures shapes_ok(s.push(e), max),
{
    let t = s.push(e);
    assert forall|i: int| 0 <= i < t.len() implies match (#[trigger] t[i]).1 {
        NodeType::Leaf => t[i].4.is_some() && 1 <= elen(t[i]) <= max,
        NodeType::Node => t[i].4.is_none(),
    } by {
        if i < s.len() { assert(t[i] == s[i]); } else { assert(t[i] == e); }
    }
}

proof fn lemma_weight_nonneg<T>(s: Seq<TreeElement<T>>)
    requires all_nonempty(s),
    ensures weight(s) >= s.len(), total(s) >= s.len(),
    decreases s.len(),
{
    if s.len() > 0 {
        let d = s.drop_last();
        assert forall|i: int| 0 <= i < d.len() implies (#[trigger] d[i]).4.is_some() && elen(d[i]) >= 1 by {
            assert(d[i] == s[i]);
        }
        lemma_weight_nonneg(d);
        assert(elen(s.last()) >= 1) by { assert(s.last() == s[s.len() - 1]); }
    }
}

proof fn lemma_push<T>(s: Seq<TreeElement<T>>, e: TreeElement<T>)
    ensures total(s.push(e)) == total(s) + elen(e), weight(s.push(e)) == weight(s) + 2 * elen(e) - 1,
{
    assert(s.push(e).drop_last() =~= s);
    assert(s.push(e).last() == e);
}


impl<T: Bounded> BVH<T> {
    #[verifier::external_body]
    fn partition_elements_by_centroid(elements: Vec<T>) -> (r: (Vec<T>, Vec<T>))
        requires elements@.len() >= 2,
        ensures r.0@.len() + r.1@.len() == elements@.len(), r.0@.len() >= 1, r.1@.len() >= 1,
    {
        unimplemented!()
    }

    fn generate_node_list(elements: Vec<T>, max_num_elements: usize) -> (node_list: Vec<TreeElement<T>>) //@v[sig]
        requires //@v
            max_num_elements >= 1, //@v[C13.builder.pre.leaf_size]
            elements@.len() <= usize::MAX / 4, //@v[C13.builder.pre.len]
        ensures //@v
            node_list@.len() >= 1, //@v[C13.builder.nonempty]
            total(node_list@) == elements@.len(), //@v[C13.builder.leaf_sizes_sum]
            node_list@[0].0 == 0 && node_list@[0].3.is_none(), //@v[C13.builder.root_first]
            elements@.len() > max_num_elements ==> shapes_ok(node_list@, max_num_elements as int), //@v[C13.builder.leaf_bound]
            elements@.len() > max_num_elements ==> parents_ok(node_list@), //@v[C13.builder.parents]
            elements@.len() <= max_num_elements ==> node_list@.len() == 1 && node_list@[0].1 is Leaf, //@v[C13.builder.single_leaf]
            ids_distinct(node_list@), //@v[C13.builder.ids_distinct]
    { //@v[open]
        use NodeType::*;
        use Side::*;

        // Nodos pendientes
        let mut pending: Vec<TreeElement<T>> = Vec::new();
        // Nodos procesados (2*n-1 nodos con n terminales)
        let expected_num_nodes = (2 * (elements.len() / max_num_elements)).saturating_sub(1);
        let mut node_list: Vec<TreeElement<T>> = Vec::with_capacity(expected_num_nodes);

        let mut id: NodeId = 0;
        let ll = elements.len();
        let ghost n: int = elements@.len() as int; //@v
        if ll > max_num_elements {
            let (left, right) = BVH::partition_elements_by_centroid(elements);
            // Guardamos nodo inicial (da igual el lado)
            let ghost nl0 = node_list@; //@v
            node_list.push(TreeElement(0, Node, L, None, None));
            proof { //@v
                lemma_push(nl0, node_list@.last()); //@v
                assert(node_list@ =~= nl0.push(node_list@.last())); //@v
                lemma_parents_init(node_list@); //@v
                lemma_shapes_push(nl0, node_list@.last(), max_num_elements as int); //@v
                lemma_has_node_last(nl0, node_list@.last()); //@v
                lemma_pending_empty(node_list@); //@v
            } //@v
            let ghost p0 = pending@; //@v
            // Nodos pendientes
            pending.push(TreeElement(id + 2, Node, R, Some(id), Some(right)));
            let ghost p1 = pending@; //@v
            proof { lemma_push(p0, p1.last()); assert(p1 =~= p0.push(p1.last())); assert(p0 =~= Seq::empty()); lemma_pending_push(p0, node_list@, p1.last()); } //@v
            pending.push(TreeElement(id + 1, Node, L, Some(id), Some(left)));
            proof { lemma_push(p1, pending@.last()); assert(pending@ =~= p1.push(pending@.last())); lemma_pending_push(p1, node_list@, pending@.last()); lemma_ids_init(node_list@, pending@); } //@v
            id += 2;
            // Procesar stack de pendientes de dividir
            while !pending.is_empty() //@v[while]
                invariant //@v
                    max_num_elements >= 1, //@v[C13.builder.inv]
                    n <= usize::MAX / 4, //@v[C13.builder.inv]
                    all_nonempty(pending@), //@v[C13.builder.inv.pending_nonempty]
                    total(node_list@) + total(pending@) == n, //@v[C13.builder.inv.nothing_lost]
                    id + 2 * weight(pending@) <= 4 * n, //@v[C13.builder.inv.id_bound]
                    node_list@.len() >= 1, //@v[C13.builder.inv]
                    shapes_ok(node_list@, max_num_elements as int), //@v[C13.builder.inv.leaf_bound]
                    parents_ok(node_list@), //@v[C13.builder.inv.parents]
                    pending_parents_ok(pending@, node_list@), //@v[C13.builder.inv.pending_parents]
                    ids_ok(node_list@, pending@, id as int), //@v[C13.builder.inv.ids]
                decreases weight(pending@), //@v[C13.builder.terminates]
            { //@v[open]
                let ghost pend_head = pending@; //@v
                let ghost nl_head = node_list@; //@v
                proof { lemma_weight_nonneg(pend_head); } //@v
                let TreeElement(c_id, _c_type, c_side, c_maybe_parent_id, c_maybe_elems) =
                    pending.pop().unwrap();
                    proof { //@v
                        assert(pending@ =~= pend_head.drop_last()); //@v
                        assert(pend_head.last() == pend_head[pend_head.len() - 1]); //@v
                        assert forall|i: int| 0 <= i < pending@.len() implies (#[trigger] pending@[i]).4.is_some() && elen(pending@[i]) >= 1 by { //@v
                            assert(pending@[i] == pend_head[i]); //@v
                        } //@v
                        lemma_weight_nonneg(pending@); //@v
                        lemma_pending_pop(pend_head, nl_head); //@v
                    } //@v
                let c_elems = c_maybe_elems.unwrap();
                let cll = c_elems.len();
                if cll > max_num_elements {
                    // Completamos un nodo intermedio y dejamos pendientes sus ramas
                    let (left, right) = BVH::partition_elements_by_centroid(c_elems);
                    node_list.push(TreeElement(c_id, Node, c_side, c_maybe_parent_id, None));
                    proof { //@v
                        lemma_push(nl_head, node_list@.last()); //@v
                        assert(node_list@ =~= nl_head.push(node_list@.last())); //@v
                        lemma_parents_push(nl_head, node_list@.last()); //@v
                        lemma_shapes_push(nl_head, node_list@.last(), max_num_elements as int); //@v
                        lemma_pending_grow_list(pending@, nl_head, node_list@.last()); //@v
                        lemma_has_node_last(nl_head, node_list@.last()); //@v
                        lemma_ids_move(nl_head, pend_head, node_list@.last(), id as int); //@v
                    } //@v
                    let ghost q0 = pending@; //@v
                    pending.push(TreeElement(id + 2, Node, R, Some(c_id), Some(right)));
                    let ghost q1 = pending@; //@v
                    proof { lemma_push(q0, q1.last()); assert(q1 =~= q0.push(q1.last())); lemma_pending_push(q0, node_list@, q1.last()); } //@v
                    pending.push(TreeElement(id + 1, Node, L, Some(c_id), Some(left)));
                    proof { //@v
                        lemma_push(q1, pending@.last()); //@v
                        assert(pending@ =~= q1.push(pending@.last())); //@v
                        lemma_pending_push(q1, node_list@, pending@.last()); //@v
                        lemma_ids_fresh(node_list@, q0, q1.last(), pending@.last(), id as int); //@v
                        assert(pending@ =~= q0.push(q1.last()).push(pending@.last())); //@v
                        assert forall|i: int| 0 <= i < pending@.len() implies (#[trigger] pending@[i]).4.is_some() && elen(pending@[i]) >= 1 by { //@v
                            if i < q0.len() { assert(pending@[i] == q0[i]); } //@v
                        } //@v
                    } //@v
                    id += 2;
                } else {
                    // Completamos un nodo terminal
                    node_list.push(TreeElement(
                        c_id,
                        Leaf,
                        c_side,
                        c_maybe_parent_id,
                        Some(c_elems),
                    ));
                    proof { //@v
                        lemma_push(nl_head, node_list@.last()); //@v
                        assert(node_list@ =~= nl_head.push(node_list@.last())); //@v
                        lemma_parents_push(nl_head, node_list@.last()); //@v
                        lemma_shapes_push(nl_head, node_list@.last(), max_num_elements as int); //@v
                        lemma_pending_grow_list(pending@, nl_head, node_list@.last()); //@v
                        lemma_ids_move(nl_head, pend_head, node_list@.last(), id as int); //@v
                    } //@v
                }
            }
        proof { lemma_parents_root(node_list@); lemma_ids_result(node_list@, pending@, id as int); } //@v
        } else {
            let ghost nl0 = node_list@; //@v
            node_list.push(TreeElement(0, Leaf, L, None, Some(elements)));
            proof { lemma_push(nl0, node_list@.last()); assert(node_list@ =~= nl0.push(node_list@.last())); lemma_ids_single(node_list@); } //@v
        }
        node_list
    }
}

} // verus!
fn main() {}
