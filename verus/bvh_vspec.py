"""Specification text for the Verus unit `bvh_builder` (C13 / C14).

The executable text (enum Side, enum NodeType, type NodeId, struct TreeElement, fn generate_node_list) is sliced
verbatim out of /repo's bemodel/src/energy/raytracing/bvh.rs on every run by run_verus.py. This file only holds
what is ADDED: the prelude for types the builder does not look into, the contract (requires/ensures), loop
invariants, ghost snapshots and lemma calls, each attached at an anchor (a regex that must match exactly one
source line of the extracted function). Lines carry a label in a trailing comment where a failure of that line
is to be reported as a named obligation.
"""

# Types the builder treats abstractly. What the extraction DROPS from bvh.rs is stated in DESIGN.md §C13:
# doc comments, #[derive(Debug)], the Debug impl of TreeElement, every other method of BVH, and the bodies of
# AABB / Bounded (opaque here) and partition_elements_by_centroid_plane (external_body with contract P' below).
HEADER = """use vstd::prelude::*;
verus! {

pub struct AABB { pub opaque: u8 }

pub trait Bounded {
    fn aabb(&self) -> AABB;
}

pub struct BVH<T> {
    pub root: Option<T>,
}
"""

# The partition step. `partition_elements_by_centroid` (the repair of an empty half with Vec::append / split_off) is
# extracted verbatim and verified against contract P, taken from the property statement ("building ... terminates for
# any set, including many with coinciding centres"): both halves non-empty and nothing lost or duplicated. What stays an
# ASSUMPTION is contract P' of `partition_elements_by_centroid_plane` (f32 mean of the centres + Iterator::partition,
# outside Verus): every element goes to exactly one side. The real body of the plane step is checked against P' - and
# the pair against P - by the native twin obligations C13.partition.* (bounded).
EXTERNAL = """    #[verifier::external_body]
    fn partition_elements_by_centroid_plane(elements: Vec<T>) -> (r: (Vec<T>, Vec<T>))
        ensures r.0@.len() + r.1@.len() == elements@.len(),
                r.0@.to_multiset().add(r.1@.to_multiset()) =~= elements@.to_multiset(),
    {
        unimplemented!()
    }
"""

PARTITION_SIG = r"^    fn partition_elements_by_centroid\(elements: Vec<T>\) -> \(Vec<T>, Vec<T>\) \{"
PARTITION_ENSURES = [
    ("C13.partition.nothing_lost", "r.0@.len() + r.1@.len() == elements@.len()"),
    ("C13.partition.both_nonempty", "elements@.len() >= 2 ==> r.0@.len() >= 1 && r.1@.len() >= 1"),
    ("C13.partition.same_elements", "r.0@.to_multiset().add(r.1@.to_multiset()) =~= elements@.to_multiset()"),
]
# (anchor regex - exactly one line of the function -, 'before'|'after', text). Both anchors are the first and the last
# statement of the function; the hint speaks about the two halves only (it covers a repair step that keeps the halves or
# re-splits their concatenation, in either order).
PARTITION_INSERTS = [
    (r"^\s*let \(mut left, mut right\) = Self::partition_elements_by_centroid_plane\(elements\);$", "after",
     "let ghost (l0, r0) = (left@, right@);"),
    (r"^\s*\(left, right\)$", "before",
     """proof {
    vstd::seq_lib::lemma_multiset_commutative(left@, right@);
    vstd::seq_lib::lemma_multiset_commutative(right@, left@);
    vstd::seq_lib::lemma_multiset_commutative(l0, r0);
    vstd::seq_lib::lemma_multiset_commutative(r0, l0);
    // case splits only - nothing is asserted, so nothing is assumed for the clauses that follow
    if left@ =~= l0 && right@ =~= r0 {}
    if left@ + right@ =~= l0 + r0 {}
    if left@ + right@ =~= r0 + l0 {}
    if right@ + left@ =~= l0 + r0 {}
    if right@ + left@ =~= r0 + l0 {}
}"""),
]

# a clause whose proof needs the hint above: when only it fails, nothing is known (T has no Clone bound: an element can
# be dropped - which C13.partition.nothing_lost sees - but not duplicated) - reported as undecided, never as a violation
PARTITION_SOFT = ["C13.partition.same_elements"]

# requires / ensures of generate_node_list; (label, clause) -- the label names the obligation
CONTRACT_REQUIRES = [
    ("C13.builder.pre.leaf_size", "max_num_elements >= 1"),
    # machine assumption: a Vec of n obstacles fits in memory, so 4n does not overflow usize
    ("C13.builder.pre.len", "elements@.len() <= usize::MAX / 4"),
]
CONTRACT_ENSURES = [
    ("C13.builder.nonempty", "node_list@.len() >= 1"),
    ("C13.builder.leaf_sizes_sum", "total(node_list@) == elements@.len()"),
    # ... and they are the obstacles given, each exactly once (multiset equality)
    ("C13.builder.same_elements", "mtotal(node_list@) =~= elements@.to_multiset()"),
    ("C13.builder.root_first", "node_list@[0].0 == 0 && node_list@[0].3.is_none()"),
    ("C13.builder.leaf_bound", "elements@.len() > max_num_elements ==> shapes_ok(node_list@, max_num_elements as int)"),
    ("C13.builder.parents", "elements@.len() > max_num_elements ==> parents_ok(node_list@)"),
    ("C13.builder.single_leaf", "elements@.len() <= max_num_elements ==> node_list@.len() == 1 && node_list@[0].1 is Leaf"),
    # build_from_node_list keys its maps by node id: ids must be pairwise distinct
    ("C13.builder.ids_distinct", "ids_distinct(node_list@)"),
]

LOOP_INVARIANTS = [
    ("C13.builder.inv", "max_num_elements >= 1"),
    ("C13.builder.inv", "n <= usize::MAX / 4"),
    ("C13.builder.inv.pending_nonempty", "all_nonempty(pending@)"),
    ("C13.builder.inv.nothing_lost", "total(node_list@) + total(pending@) == n"),
    ("C13.builder.inv.same_elements", "mtotal(node_list@).add(mtotal(pending@)) =~= all"),
    ("C13.builder.inv.id_bound", "id + 2 * weight(pending@) <= 4 * n"),
    ("C13.builder.inv", "node_list@.len() >= 1"),
    ("C13.builder.inv.leaf_bound", "shapes_ok(node_list@, max_num_elements as int)"),
    ("C13.builder.inv.parents", "parents_ok(node_list@)"),
    ("C13.builder.inv.pending_parents", "pending_parents_ok(pending@, node_list@)"),
    ("C13.builder.inv.ids", "ids_ok(node_list@, pending@, id as int)"),
]
LOOP_DECREASES = ("C13.builder.terminates", "weight(pending@)")

PUSH_NL = "proof { lemma_push(%(g)s, node_list@.last()); assert(node_list@ =~= %(g)s.push(node_list@.last())); }"

# (anchor regex, occurrence (1-based) within the function, 'before'|'after', text)
INSERTS = [
    (r"^\s*let ll = elements\.len\(\);$", 1, "after",
     "let ghost n: int = elements@.len() as int;\nlet ghost all = elements@.to_multiset();"),
    (r"^\s*node_list\.push\(TreeElement\(0, Node, L, None, None\)\);$", 1, "before",
     "let ghost nl0 = node_list@;"),
    (r"^\s*node_list\.push\(TreeElement\(0, Node, L, None, None\)\);$", 1, "after",
     """proof {
    lemma_push(nl0, node_list@.last());
    assert(node_list@ =~= nl0.push(node_list@.last()));
    lemma_parents_init(node_list@);
    lemma_shapes_push(nl0, node_list@.last(), max_num_elements as int);
    lemma_has_node_last(nl0, node_list@.last());
    lemma_pending_empty(node_list@);
}
let ghost p0 = pending@;"""),
    (r"^\s*pending\.push\(TreeElement\(id \+ 2, Node, R, Some\(id\), Some\(right\)\)\);$", 1, "after",
     """let ghost p1 = pending@;
proof { lemma_push(p0, p1.last()); assert(p1 =~= p0.push(p1.last())); assert(p0 =~= Seq::empty()); lemma_pending_push(p0, node_list@, p1.last()); }"""),
    (r"^\s*pending\.push\(TreeElement\(id \+ 1, Node, L, Some\(id\), Some\(left\)\)\);$", 1, "after",
     "proof { lemma_push(p1, pending@.last()); assert(pending@ =~= p1.push(pending@.last())); lemma_pending_push(p1, node_list@, pending@.last()); lemma_ids_init(node_list@, pending@); }"),
    (r"^\s*let TreeElement\(c_id, _c_type, c_side, c_maybe_parent_id, c_maybe_elems\) =$", 1, "before",
     """let ghost pend_head = pending@;
let ghost nl_head = node_list@;
proof { lemma_weight_nonneg(pend_head); }"""),
    (r"^\s*pending\.pop\(\)\.unwrap\(\);$", 1, "after",
     """proof {
    assert(pending@ =~= pend_head.drop_last());
    assert(pend_head.last() == pend_head[pend_head.len() - 1]);
    assert forall|i: int| 0 <= i < pending@.len() implies (#[trigger] pending@[i]).4.is_some() && elen(pending@[i]) >= 1 by {
        assert(pending@[i] == pend_head[i]);
    }
    lemma_weight_nonneg(pending@);
    lemma_pending_pop(pend_head, nl_head);
}"""),
    (r"^\s*node_list\.push\(TreeElement\(c_id, Node, c_side, c_maybe_parent_id, None\)\);$", 1, "after",
     """proof {
    lemma_push(nl_head, node_list@.last());
    assert(node_list@ =~= nl_head.push(node_list@.last()));
    lemma_parents_push(nl_head, node_list@.last());
    lemma_shapes_push(nl_head, node_list@.last(), max_num_elements as int);
    lemma_pending_grow_list(pending@, nl_head, node_list@.last());
    lemma_has_node_last(nl_head, node_list@.last());
    lemma_ids_move(nl_head, pend_head, node_list@.last(), id as int);
}
let ghost q0 = pending@;"""),
    (r"^\s*pending\.push\(TreeElement\(id \+ 2, Node, R, Some\(c_id\), Some\(right\)\)\);$", 1, "after",
     """let ghost q1 = pending@;
proof { lemma_push(q0, q1.last()); assert(q1 =~= q0.push(q1.last())); lemma_pending_push(q0, node_list@, q1.last()); }"""),
    (r"^\s*pending\.push\(TreeElement\(id \+ 1, Node, L, Some\(c_id\), Some\(left\)\)\);$", 1, "after",
     """proof {
    lemma_push(q1, pending@.last());
    assert(pending@ =~= q1.push(pending@.last()));
    lemma_pending_push(q1, node_list@, pending@.last());
    lemma_ids_fresh(node_list@, q0, q1.last(), pending@.last(), id as int);
    assert(pending@ =~= q0.push(q1.last()).push(pending@.last()));
    assert forall|i: int| 0 <= i < pending@.len() implies (#[trigger] pending@[i]).4.is_some() && elen(pending@[i]) >= 1 by {
        if i < q0.len() { assert(pending@[i] == q0[i]); }
    }
}"""),
    # leaf branch: the multi-line push ends with `));`
    (r"^\s*\)\);$", 1, "after",
     """proof {
    lemma_push(nl_head, node_list@.last());
    assert(node_list@ =~= nl_head.push(node_list@.last()));
    lemma_parents_push(nl_head, node_list@.last());
    lemma_shapes_push(nl_head, node_list@.last(), max_num_elements as int);
    lemma_pending_grow_list(pending@, nl_head, node_list@.last());
    lemma_ids_move(nl_head, pend_head, node_list@.last(), id as int);
}"""),
    # end of the `if ll > max` branch: facts about the root for the postcondition
    (r"^\s*\} else \{$", -1, "before",
     "proof { lemma_parents_root(node_list@); lemma_ids_result(node_list@, pending@, id as int); }"),
    (r"^\s*node_list\.push\(TreeElement\(0, Leaf, L, None, Some\(elements\)\)\);$", 1, "before",
     "let ghost nl0 = node_list@;"),
    (r"^\s*node_list\.push\(TreeElement\(0, Leaf, L, None, Some\(elements\)\)\);$", 1, "after",
     "proof { lemma_push(nl0, node_list@.last()); assert(node_list@ =~= nl0.push(node_list@.last())); lemma_ids_single(node_list@); }"),
]

WHILE_ANCHOR = r"^(\s*)while !pending\.is_empty\(\) \{$"
