"""Specification text for the Verus unit `bvh_traversal` (C13): PreorderIter::next.

The executable text (enum BVHNode, struct PreorderIter, fn next) is sliced verbatim out of /repo's
bemodel/src/energy/raytracing/bvh.rs on every run by run_verus.py. This file holds what is ADDED.

What the extraction changes / drops, exhaustively:
  * `fn next(&mut self) -> Option<Self::Item>` of `impl Iterator for PreorderIter` becomes an inherent method with the
    associated type written out: `fn next(&mut self) -> (res: Option<&'a BVHNode<T>>)` (Verus has no specs for user
    Iterator impls); the `T: Bounded` bound of the impl is dropped;
  * `#[derive(Debug)]` / `#[derive(Debug, Clone)]` and doc comments of the two types;
  * `AABB`, `Ray` are opaque; `AABB::intersects` is external with the single fact `is_some() == hit(box, ray)` for an
    uninterpreted predicate `hit` (the slab test itself is decided by the Kani / bounded obligations C13.aabb.*);
  * `fn aabb(&self) -> AABB` of `impl<T> Bounded for BVHNode<T>` and `pub fn new(..) -> Self` of `impl PreorderIter` are
    extracted verbatim too and become inherent methods with named results (`-> (r: AABB)`, `-> (r: Self)`) and an
    `ensures`; `new`'s contract speaks through two closed spec accessors (`spec_ray`, `spec_stack`) because the fields
    are private and the function is public;
Trusted: std's `<Box<T> as Deref>::deref` returns the boxed value (assume_specification).
"""

HEADER = """#![feature(allocator_api)]
use vstd::prelude::*;
use std::ops::Deref;
verus! {

// trusted: std's Box::deref returns the boxed value
pub assume_specification<T: ?Sized, A: core::alloc::Allocator>[ <Box<T, A> as Deref>::deref ](b: &Box<T, A>) -> (r: &T)
    ensures r == &**b;

// (the real AABB and Ray are Copy as well)
#[derive(Clone, Copy)]
pub struct AABB { pub opaque: u8 }
#[derive(Clone, Copy)]
pub struct Ray { pub opaque: u8 }

/// "the ray meets the box": uninterpreted here
pub uninterp spec fn hit(b: AABB, r: Ray) -> bool;

impl AABB {
    #[verifier::external_body]
    pub fn intersects(&self, ray: &Ray) -> (r: Option<f32>)
        ensures r.is_some() == hit(*self, *ray),
    { unimplemented!() }
}
"""

GHOST = """
pub open spec fn box_of<T>(n: BVHNode<T>) -> AABB {
    match n {
        BVHNode::Leaf { aabb, .. } => aabb,
        BVHNode::Node { aabb, .. } => aabb,
    }
}

/// what a visited inner node leaves on the stack: its right child, then its left child (which is popped first)
pub open spec fn pushed<T>(n: BVHNode<T>) -> Seq<BVHNode<T>> {
    match n {
        BVHNode::Leaf { .. } => Seq::empty(),
        BVHNode::Node { left, right, .. } => {
            let r = if let Some(rb) = right { seq![*rb] } else { Seq::empty() };
            let l = if let Some(lb) = left { seq![*lb] } else { Seq::empty() };
            r + l
        }
    }
}

/// the nodes a stack of references points to
pub open spec fn vals<T>(s: Seq<&BVHNode<T>>) -> Seq<BVHNode<T>> {
    s.map_values(|r: &BVHNode<T>| *r)
}

// ---------------------------------------------------------------------------------------------------------------
// The whole traversal, as a theorem over the contract of `next`
// ---------------------------------------------------------------------------------------------------------------

/// what one call of `next` does to the stack (the nodes it points to), as a function
pub open spec fn step<T>(s: Seq<BVHNode<T>>, ray: Ray) -> (Option<BVHNode<T>>, Seq<BVHNode<T>>)
    decreases s.len(),
{
    if s.len() == 0 {
        (None, Seq::empty())
    } else if hit(box_of(s.last()), ray) {
        (Some(s.last()), s.drop_last() + pushed(s.last()))
    } else {
        step(s.drop_last(), ray)
    }
}

/// the nodes returned by calling `next` until it answers None (at most `fuel` calls)
pub open spec fn visit<T>(s: Seq<BVHNode<T>>, ray: Ray, fuel: nat) -> Seq<BVHNode<T>>
    decreases fuel,
{
    if fuel == 0 {
        Seq::empty()
    } else {
        match step(s, ray).0 {
            None => Seq::empty(),
            Some(n) => seq![n] + visit(step(s, ray).1, ray, (fuel - 1) as nat),
        }
    }
}

pub open spec fn size<T>(n: BVHNode<T>) -> nat
    decreases n,
{
    match n {
        BVHNode::Leaf { .. } => 1,
        BVHNode::Node { left, right, .. } => {
            let l = if let Some(lb) = left { size(*lb) } else { 0 };
            let r = if let Some(rb) = right { size(*rb) } else { 0 };
            1 + l + r
        }
    }
}

pub open spec fn total<T>(s: Seq<BVHNode<T>>) -> nat
    decreases s.len(),
{
    if s.len() == 0 { 0 } else { total(s.drop_last()) + size(s.last()) }
}

/// the nodes of a subtree that pruning leaves: a node whose box the ray misses goes with everything below it
pub open spec fn unpruned<T>(n: BVHNode<T>, ray: Ray) -> Seq<BVHNode<T>>
    decreases n,
{
    if !hit(box_of(n), ray) {
        Seq::empty()
    } else {
        match n {
            BVHNode::Leaf { .. } => seq![n],
            BVHNode::Node { left, right, .. } => {
                let l = if let Some(lb) = left { unpruned(*lb, ray) } else { Seq::empty() };
                let r = if let Some(rb) = right { unpruned(*rb, ray) } else { Seq::empty() };
                seq![n] + l + r
            }
        }
    }
}

/// ... of a stack of subtrees, topmost first
pub open spec fn unpruned_stack<T>(s: Seq<BVHNode<T>>, ray: Ray) -> Seq<BVHNode<T>>
    decreases s.len(),
{
    if s.len() == 0 { Seq::empty() } else { unpruned(s.last(), ray) + unpruned_stack(s.drop_last(), ray) }
}

proof fn lemma_size_pos<T>(n: BVHNode<T>)
    ensures size(n) >= 1,
{
}

proof fn lemma_total_concat<T>(a: Seq<BVHNode<T>>, b: Seq<BVHNode<T>>)
    ensures total(a + b) == total(a) + total(b),
    decreases b.len(),
{
    if b.len() == 0 {
        assert(a + b =~= a);
    } else {
        assert((a + b).drop_last() =~= a + b.drop_last());
        assert((a + b).last() == b.last());
        lemma_total_concat(a, b.drop_last());
    }
}

proof fn lemma_unpruned_concat<T>(a: Seq<BVHNode<T>>, b: Seq<BVHNode<T>>, ray: Ray)
    ensures unpruned_stack(a + b, ray) == unpruned_stack(b, ray) + unpruned_stack(a, ray),
    decreases b.len(),
{
    if b.len() == 0 {
        assert(a + b =~= a);
        assert(unpruned_stack(b, ray) + unpruned_stack(a, ray) =~= unpruned_stack(a, ray));
    } else {
        assert((a + b).drop_last() =~= a + b.drop_last());
        assert((a + b).last() == b.last());
        lemma_unpruned_concat(a, b.drop_last(), ray);
        assert(unpruned(b.last(), ray) + (unpruned_stack(b.drop_last(), ray) + unpruned_stack(a, ray))
            =~= (unpruned(b.last(), ray) + unpruned_stack(b.drop_last(), ray)) + unpruned_stack(a, ray));
    }
}


proof fn lemma_single<T>(x: BVHNode<T>, ray: Ray)
    ensures
        total(seq![x]) == size(x),
        unpruned_stack(seq![x], ray) == unpruned(x, ray),
{
    let s = seq![x];
    assert(s.drop_last() =~= Seq::<BVHNode<T>>::empty());
    assert(s.last() == x);
    assert(total(s.drop_last()) == 0);
    assert(unpruned_stack(s.drop_last(), ray) =~= Seq::<BVHNode<T>>::empty());
    assert(unpruned(x, ray) + Seq::<BVHNode<T>>::empty() =~= unpruned(x, ray));
}

proof fn lemma_empty<T>(ray: Ray)
    ensures
        total(Seq::<BVHNode<T>>::empty()) == 0,
        unpruned_stack(Seq::<BVHNode<T>>::empty(), ray) == Seq::<BVHNode<T>>::empty(),
{
}

/// the children a visited node leaves on the stack weigh one less than the node, and pruning them gives the pruned
/// subtrees left-first
proof fn lemma_pushed<T>(n: BVHNode<T>, ray: Ray)
    ensures
        total(pushed(n)) + 1 == size(n),
        hit(box_of(n), ray) ==> unpruned(n, ray) == seq![n] + unpruned_stack(pushed(n), ray),
{
    match n {
        BVHNode::Leaf { .. } => {
            lemma_empty::<T>(ray);
            assert(pushed(n) =~= Seq::empty());
            assert(seq![n] + unpruned_stack(pushed(n), ray) =~= seq![n]);
        }
        BVHNode::Node { left, right, .. } => {
            let r = if let Some(rb) = right { seq![*rb] } else { Seq::empty() };
            let l = if let Some(lb) = left { seq![*lb] } else { Seq::empty() };
            assert(pushed(n) == r + l);
            lemma_total_concat(r, l);
            lemma_unpruned_concat(r, l, ray);
            lemma_empty::<T>(ray);
            if let Some(rb) = right {
                lemma_single(*rb, ray);
            }
            if let Some(lb) = left {
                lemma_single(*lb, ray);
            }
            if hit(box_of(n), ray) {
                assert(unpruned(n, ray) =~= seq![n] + (unpruned_stack(l, ray) + unpruned_stack(r, ray)));
            }
        }
    }
}

/// THEOREM (C13.traversal.visits_exactly_unpruned): calling `next` until None returns, in preorder, exactly the nodes
/// every ancestor of which - and which themselves - have a box the ray meets; nothing else is visited, nothing of it
/// is skipped
proof fn theorem_traversal<T>(s: Seq<BVHNode<T>>, ray: Ray, fuel: nat)
    requires fuel >= total(s),
    ensures visit(s, ray, fuel) == unpruned_stack(s, ray), //@v[C13.traversal.visits_exactly_unpruned]
    decreases fuel, s.len(),
{
    if s.len() == 0 {
        assert(visit(s, ray, fuel) =~= Seq::empty());
    } else {
        lemma_size_pos(s.last());
        if hit(box_of(s.last()), ray) {
            let rest = s.drop_last();
            let s2 = rest + pushed(s.last());
            lemma_total_concat(rest, pushed(s.last()));
            lemma_pushed(s.last(), ray);
            theorem_traversal(s2, ray, (fuel - 1) as nat);
            lemma_unpruned_concat(rest, pushed(s.last()), ray);
            assert(visit(s, ray, fuel) == seq![s.last()] + visit(s2, ray, (fuel - 1) as nat));
            assert(seq![s.last()] + (unpruned_stack(pushed(s.last()), ray) + unpruned_stack(rest, ray))
                =~= (seq![s.last()] + unpruned_stack(pushed(s.last()), ray)) + unpruned_stack(rest, ray));
        } else {
            theorem_traversal(s.drop_last(), ray, fuel);
            assert(step(s, ray) == step(s.drop_last(), ray));
            assert(visit(s, ray, fuel) == visit(s.drop_last(), ray, fuel));
            assert(unpruned(s.last(), ray) + unpruned_stack(s.drop_last(), ray) =~= unpruned_stack(s.drop_last(), ray));
        }
    }
}

/// COROLLARY: an iterator made by `new(Some(root), ray)` (stack = [root], C13.traversal.starts_at_root) returns exactly
/// the unpruned nodes of the tree, root first
proof fn corollary_from_root<T>(root: BVHNode<T>, ray: Ray, fuel: nat)
    requires fuel >= size(root),
    ensures visit(seq![root], ray, fuel) == unpruned(root, ray), //@v[C13.traversal.visits_exactly_unpruned]
{
    lemma_single(root, ray);
    theorem_traversal(seq![root], ray, fuel);
}

/// the contract of `next` determines its outcome: it is `step`
proof fn lemma_step_some<T>(s: Seq<BVHNode<T>>, ray: Ray, k: int)
    requires
        0 <= k < s.len(),
        hit(box_of(s[k]), ray),
        forall|j: int| k < j < s.len() ==> !hit(box_of(#[trigger] s[j]), ray),
    ensures step(s, ray) == (Some(s[k]), s.subrange(0, k) + pushed(s[k])),
    decreases s.len(),
{
    if k == s.len() - 1 {
        assert(s.drop_last() =~= s.subrange(0, k));
    } else {
        assert(!hit(box_of(s[s.len() - 1]), ray));
        let d = s.drop_last();
        assert(d[k] == s[k]);
        assert forall|j: int| k < j < d.len() implies !hit(box_of(#[trigger] d[j]), ray) by { assert(d[j] == s[j]); }
        lemma_step_some(d, ray, k);
        assert(d.subrange(0, k) =~= s.subrange(0, k));
    }
}

proof fn lemma_step_none<T>(s: Seq<BVHNode<T>>, ray: Ray)
    requires forall|j: int| 0 <= j < s.len() ==> !hit(box_of(#[trigger] s[j]), ray),
    ensures step(s, ray) == (None::<BVHNode<T>>, Seq::<BVHNode<T>>::empty()),
    decreases s.len(),
{
    if s.len() > 0 {
        assert(!hit(box_of(s[s.len() - 1]), ray));
        let d = s.drop_last();
        assert forall|j: int| 0 <= j < d.len() implies !hit(box_of(#[trigger] d[j]), ray) by { assert(d[j] == s[j]); }
        lemma_step_none(d, ray);
    }
}
"""

# contract of next: (label, clause)
ENSURES = [
    ("C13.traversal.ray_unchanged", "final(self).ray == old(self).ray"),
    # Some(n): n is the topmost stack entry whose box the ray meets; everything above it was discarded unvisited (its
    # whole subtree is pruned: nothing of it is pushed); n's children replace it, right below left.
    # None: no entry's box is met, the stack is empty.
    ("C13.traversal.prunes_exactly_missed_subtrees", """match res {
                Some(n) => exists|k: int| 0 <= k < old(self).stack@.len()
                    && *n == *old(self).stack@[k]
                    && hit(box_of(*n), old(self).ray)
                    && (forall|j: int| k < j < old(self).stack@.len() ==> !hit(box_of(*#[trigger] old(self).stack@[j]), old(self).ray))
                    && vals(final(self).stack@) == vals(old(self).stack@).subrange(0, k) + pushed(*n),
                None => final(self).stack@.len() == 0
                    && (forall|j: int| 0 <= j < old(self).stack@.len() ==> !hit(box_of(*#[trigger] old(self).stack@[j]), old(self).ray)),
            }"""),
    # the contract determines the outcome: one call is the function `step` on the stack - the link between the real
    # code and the whole-traversal theorem (GHOST: theorem_traversal)
    ("C13.traversal.is_step", "(match res { Some(n) => Some(*n), None => None::<BVHNode<T>> }, vals(final(self).stack@)) == step(vals(old(self).stack@), old(self).ray)"),
]
# proved in GHOST over `step` alone (no executable code): calling `next` until None returns exactly the unpruned nodes
THEOREMS = ["C13.traversal.visits_exactly_unpruned"]

# (signature regex in bvh.rs, result type as written, named result, ensures [(label, clause)])
EXTRA_FNS = [
    (r"^    fn aabb\(&self\) -> AABB \{", "-> AABB", "-> (r: AABB)",
     [("C13.traversal.node_box", "r == box_of(*self)")], "BVHNode"),
    (r"^    pub fn new\(root: Option<&'a BVHNode<T>>, ray: Ray\) -> Self \{", "-> Self", "-> (r: Self)",
     [("C13.traversal.starts_at_root", "r.spec_ray() == ray"),
      ("C13.traversal.starts_at_root", "r.spec_stack() == (match root { Some(n) => seq![*n], None => Seq::<BVHNode<T>>::empty() })")], "PreorderIter"),
]
ACCESSORS = """    pub closed spec fn spec_ray(&self) -> Ray { self.ray }
    pub closed spec fn spec_stack(&self) -> Seq<BVHNode<T>> { vals(self.stack@) }
"""

WHILE_ANCHOR = r"while let Some\(node\) = self\.stack\.pop\(\) \{"
LOOP_INVARIANTS = [
    ("C13.traversal.inv", "self.ray == old(self).ray"),
    ("C13.traversal.inv", "self.stack@.len() <= old(self).stack@.len()"),
    ("C13.traversal.inv", "self.stack@ == old(self).stack@.subrange(0, self.stack@.len() as int)"),
    ("C13.traversal.inv", "forall|j: int| self.stack@.len() <= j < old(self).stack@.len() ==> !hit(box_of(*#[trigger] old(self).stack@[j]), old(self).ray)"),
]
LOOP_ENSURES = ("C13.traversal.exhausted", "self.stack@.len() == 0")
LOOP_DECREASES = ("C13.traversal.terminates", "self.stack.len()")

# (anchor regex, where, text): ghost statements
INSERTS = [
    (r"^\s*if node\.aabb\(\)\.intersects\(&self\.ray\)", "before",
     "let ghost k = self.stack@.len() as int;\n"
     "proof {\n"
     "    assert(*node == *old(self).stack@[k]);\n"
     "    assert(self.stack@ =~= old(self).stack@.subrange(0, k));\n"
     "}"),
    (r"return Some\(node\);", "before",
     "proof {\n"
     "    assert(vals(self.stack@) =~= vals(old(self).stack@).subrange(0, k) + pushed(*node)); // C13.traversal.children_pushed\n"
     "    lemma_step_some(vals(old(self).stack@), self.ray, k);\n"
     "}"),
    (r"^\s*None$", "before",
     "proof { lemma_step_none(vals(old(self).stack@), self.ray); assert(vals(self.stack@) =~= Seq::<BVHNode<T>>::empty()); }"),
]
