"""Specification text for the Verus unit `bvh_traversal` (C13): PreorderIter::next.

The executable text (enum BVHNode, struct PreorderIter, fn next) is sliced verbatim out of /repo's
bemodel/src/energy/raytracing/bvh.rs on every run by run_verus.py. This file holds what is ADDED.

What the extraction changes / drops, exhaustively:
  * `fn next(&mut self) -> Option<Self::Item>` of `impl Iterator for PreorderIter` becomes an inherent method with the
    associated type written out: `fn next(&mut self) -> (res: Option<&'a BVHNode<T>>)` (Verus has no specs for user
    Iterator impls); the `T: Bounded` bound of the impl is dropped;
  * `#[derive(Debug)]` / `#[derive(Debug, Clone)]` and doc comments of the two types;
  * `AABB`, `Ray` are opaque; `AABB::intersects` is external with the single fact `is_some() == hit(box, ray)` for an
    uninterpreted predicate `hit` (the slab test itself is decided by the Kani / bounded obligations C13.aabb.*);
  * `BVHNode::aabb()` (a three-line match returning the node's `aabb` field) is external with exactly that contract.
Trusted: std's `<Box<T> as Deref>::deref` returns the boxed value (assume_specification).
"""

HEADER = """#![feature(allocator_api)]
use vstd::prelude::*;
use std::ops::Deref;
verus! {

// trusted: std's Box::deref returns the boxed value
pub assume_specification<T: ?Sized, A: core::alloc::Allocator>[ <Box<T, A> as Deref>::deref ](b: &Box<T, A>) -> (r: &T)
    ensures r == &**b;

pub struct AABB { pub opaque: u8 }
pub struct Ray { pub opaque: u8 }

/// "the ray meets the box": uninterpreted here
pub uninterp spec fn hit(b: AABB, r: Ray) -> bool;

impl AABB {
    #[verifier::external_body]
    pub fn intersects(&self, ray: &Ray) -> (r: Option<f32>)
        ensures r.is_some() == hit(*self, *ray),
    { unimplemented!() }
}
"""

GHOST = """
pub open spec fn box_of<T>(n: BVHNode<T>) -> AABB {
    match n {
        BVHNode::Leaf { aabb, .. } => aabb,
        BVHNode::Node { aabb, .. } => aabb,
    }
}

impl<T> BVHNode<T> {
    #[verifier::external_body]
    fn aabb(&self) -> (r: AABB)
        ensures r == box_of(*self),
    { unimplemented!() }
}

/// what a visited inner node leaves on the stack: its right child, then its left child (which is popped first)
pub open spec fn pushed<T>(n: BVHNode<T>) -> Seq<BVHNode<T>> {
    match n {
        BVHNode::Leaf { .. } => Seq::empty(),
        BVHNode::Node { left, right, .. } => {
            let r = if let Some(rb) = right { seq![*rb] } else { Seq::empty() };
            let l = if let Some(lb) = left { seq![*lb] } else { Seq::empty() };
            r + l
        }
    }
}

/// the nodes a stack of references points to
pub open spec fn vals<T>(s: Seq<&BVHNode<T>>) -> Seq<BVHNode<T>> {
    s.map_values(|r: &BVHNode<T>| *r)
}
"""

# contract of next: (label, clause)
ENSURES = [
    ("C13.traversal.ray_unchanged", "final(self).ray == old(self).ray"),
    # Some(n): n is the topmost stack entry whose box the ray meets; everything above it was discarded unvisited (its
    # whole subtree is pruned: nothing of it is pushed); n's children replace it, right below left.
    # None: no entry's box is met, the stack is empty.
    ("C13.traversal.prunes_exactly_missed_subtrees", """match res {
                Some(n) => exists|k: int| 0 <= k < old(self).stack@.len()
                    && *n == *old(self).stack@[k]
                    && hit(box_of(*n), old(self).ray)
                    && (forall|j: int| k < j < old(self).stack@.len() ==> !hit(box_of(*#[trigger] old(self).stack@[j]), old(self).ray))
                    && vals(final(self).stack@) == vals(old(self).stack@).subrange(0, k) + pushed(*n),
                None => final(self).stack@.len() == 0
                    && (forall|j: int| 0 <= j < old(self).stack@.len() ==> !hit(box_of(*#[trigger] old(self).stack@[j]), old(self).ray)),
            }"""),
]

WHILE_ANCHOR = r"while let Some\(node\) = self\.stack\.pop\(\) \{"
LOOP_INVARIANTS = [
    ("C13.traversal.inv", "self.ray == old(self).ray"),
    ("C13.traversal.inv", "self.stack@.len() <= old(self).stack@.len()"),
    ("C13.traversal.inv", "self.stack@ == old(self).stack@.subrange(0, self.stack@.len() as int)"),
    ("C13.traversal.inv", "forall|j: int| self.stack@.len() <= j < old(self).stack@.len() ==> !hit(box_of(*#[trigger] old(self).stack@[j]), old(self).ray)"),
]
LOOP_ENSURES = ("C13.traversal.exhausted", "self.stack@.len() == 0")
LOOP_DECREASES = ("C13.traversal.terminates", "self.stack.len()")

# (anchor regex, where, text): ghost statements
INSERTS = [
    (r"^\s*if node\.aabb\(\)\.intersects\(&self\.ray\)", "before",
     "let ghost k = self.stack@.len() as int;\n"
     "proof {\n"
     "    assert(*node == *old(self).stack@[k]);\n"
     "    assert(self.stack@ =~= old(self).stack@.subrange(0, k));\n"
     "}"),
    (r"return Some\(node\);", "before",
     "proof {\n"
     "    assert(vals(self.stack@) =~= vals(old(self).stack@).subrange(0, k) + pushed(*node)); // C13.traversal.children_pushed\n"
     "}"),
]
