// Contracts for bemodel/src/convert/from_ctehexml.rs (calendar arithmetic, angle conventions).
#![allow(dead_code, unused_imports, non_snake_case, clippy::all)]

use super::*;

pub(crate) const MONTH_DAYS: [u32; 12] = [31, 28, 31, 30, 31, 30, 31, 31, 30, 31, 30, 31];

/// Calendar ordinal of (day, month) in a non-leap year, written from the calendar (independent oracle)
pub(crate) fn ordinal(day: u32, month: u32) -> u32 {
    let mut n = 0;
    let mut m = 1;
    while m < month {
        n += MONTH_DAYS[(m - 1) as usize];
        m += 1;
    }
    n + day
}

#[cfg(kani)]
mod k {
    use super::*;

    fn any_f32_in(lo: f32, hi: f32) -> f32 {
        let v: f32 = kani::any();
        kani::assume(v >= lo && v <= hi);
        v
    }

    // C17.doy: day_of_year agrees with the calendar for every date of the non-leap year
    #[kani::proof]
    #[kani::unwind(13)]
    fn c17_day_of_year() {
        let m: u32 = kani::any();
        let d: u32 = kani::any();
        kani::assume(m >= 1 && m <= 12);
        kani::assume(d >= 1 && d <= MONTH_DAYS[(m - 1) as usize]);
        kani::cover!(m == 12 && d == 31, "31 Dec reachable");
        let n = day_of_year(d, m);
        assert!(n == ordinal(d, m), "C17.doy.calendar");
        assert!(n >= 1 && n <= 365, "C17.doy.range");
        if m == 12 && d == 31 {
            assert!(n == 365, "C17.doy.last");
        }
    }

    // C03.azimuth: BDL azimuth (N=0, E+) -> ISO 52016 (S=0, E+): result in [-180,180], congruent to 180 - a
    #[kani::proof]
    fn c03_azimuth_convention() {
        let a = any_f32_in(-1080.0, 1080.0);
        kani::cover!(true, "precondition satisfiable");
        let r = orientation_bdl_to_52016(a);
        assert!(r >= -180.0 && r <= 180.0, "C03.azimuth.range");
        let d = ((r as f64) - (180.0 - a as f64)) / 360.0;
        let k = d.round();
        assert!((d - k).abs() <= 2.0e-6, "C03.azimuth.congruent");
    }

    // turning the building by delta shifts every converted azimuth by -delta (mod 360), for exactly representable sums
    #[kani::proof]
    fn c03_azimuth_shift() {
        let a = any_f32_in(-360.0, 360.0);
        let delta = any_f32_in(0.0, 360.0);
        let b = a + delta;
        kani::assume((b as f64) == (a as f64) + (delta as f64));
        kani::cover!(delta > 1.0, "precondition satisfiable");
        let ra = orientation_bdl_to_52016(a) as f64;
        let rb = orientation_bdl_to_52016(b) as f64;
        let d = ((ra - rb) - delta as f64) / 360.0;
        let k = d.round();
        assert!((d - k).abs() <= 4.0e-6, "C03.azimuth.shift");
    }
}
