// Contracts for bemodel/src/convert/from_ctehexml.rs (calendar arithmetic, angle conventions).
#![allow(dead_code, unused_imports, non_snake_case, clippy::all)]

use super::*;

pub(crate) const MONTH_DAYS: [u32; 12] = [31, 28, 31, 30, 31, 30, 31, 31, 30, 31, 30, 31];

/// Calendar ordinal of (day, month) in a non-leap year, written from the calendar (independent oracle)
pub(crate) fn ordinal(day: u32, month: u32) -> u32 {
    let mut n = 0;
    let mut m = 1;
    while m < month {
        n += MONTH_DAYS[(m - 1) as usize];
        m += 1;
    }
    n + day
}

#[cfg(kani)]
mod k {
    use super::*;

    fn any_f32_in(lo: f32, hi: f32) -> f32 {
        let v: f32 = kani::any();
        kani::assume(v >= lo && v <= hi);
        v
    }

    // C17.doy: day_of_year agrees with the calendar for every date of the non-leap year
    #[kani::proof]
    #[kani::unwind(13)]
    fn c17_day_of_year() {
        let m: u32 = kani::any();
        let d: u32 = kani::any();
        kani::assume(m >= 1 && m <= 12);
        kani::assume(d >= 1 && d <= MONTH_DAYS[(m - 1) as usize]);
        kani::cover!(m == 12 && d == 31, "31 Dec reachable");
        let n = day_of_year(d, m);
        assert!(n == ordinal(d, m), "C17.doy.calendar");
        assert!(n >= 1 && n <= 365, "C17.doy.range");
        if m == 12 && d == 31 {
            assert!(n == 365, "C17.doy.last");
        }
    }

    // C03.azimuth: BDL azimuth (N=0, E+) -> ISO 52016 (S=0, E+): result in [-180,180], congruent to 180 - a
    #[kani::proof]
    fn c03_azimuth_convention() {
        let a = any_f32_in(-1080.0, 1080.0);
        kani::cover!(true, "precondition satisfiable");
        let r = orientation_bdl_to_52016(a);
        assert!(r >= -180.0 && r <= 180.0, "C03.azimuth.range");
        let d = ((r as f64) - (180.0 - a as f64)) / 360.0;
        let k = d.round();
        assert!((d - k).abs() <= 2.0e-6, "C03.azimuth.congruent");
    }

    // turning the building by delta shifts every converted azimuth by -delta (mod 360), for exactly representable sums
    #[kani::proof]
    fn c03_azimuth_shift() {
        let a = any_f32_in(-360.0, 360.0);
        let delta = any_f32_in(0.0, 360.0);
        let b = a + delta;
        kani::assume((b as f64) == (a as f64) + (delta as f64));
        kani::cover!(delta > 1.0, "precondition satisfiable");
        let ra = orientation_bdl_to_52016(a) as f64;
        let rb = orientation_bdl_to_52016(b) as f64;
        let d = ((ra - rb) - delta as f64) / 360.0;
        let k = d.round();
        assert!((d - k).abs() <= 4.0e-6, "C03.azimuth.shift");
    }
}

#[cfg(verif_native)]
mod n {
    use super::*;
    use crate::verif_root::support::*;
    use hulc::bdl::{DaySchedule, Schedule as BSchedule, WeekSchedule, YearSchedule};

    fn data_with(year: YearSchedule, weeks: Vec<WeekSchedule>, days: Vec<DaySchedule>) -> Data {
        let mut d = Data::default();
        for x in days {
            d.schedules.push(BSchedule::Day(x));
        }
        for x in weeks {
            d.schedules.push(BSchedule::Week(x));
        }
        d.schedules.push(BSchedule::Year(year));
        d
    }

    fn day(name: &str, values: Vec<f32>) -> DaySchedule {
        DaySchedule { name: name.to_string(), values, ..Default::default() }
    }

    const GRID: [(u32, u32); 14] = [(1, 1), (31, 1), (28, 2), (1, 3), (31, 3), (30, 4), (15, 6), (30, 6), (1, 7), (31, 7), (31, 8), (30, 9), (31, 10), (30, 12)];

    // C17.convert: end dates -> periods partitioning the 365-day year exactly at those dates
    #[test]
    fn n_c17_convert_year() {
        drive("C17.convert.year", "schedules_from_bdl: yearly schedules given by every increasing list of 0..2 end dates from a 14-date grid followed by 31 Dec, and by every single end date of the year followed by 31 Dec", |c| {
            let mode = c.pick(2);
            let mut dates: Vec<(u32, u32)> = vec![];
            if mode == 0 {
                let i = c.pick(GRID.len() + 1);
                if i < GRID.len() {
                    dates.push(GRID[i]);
                    let j = c.pick(GRID.len() + 1);
                    if j < GRID.len() {
                        if j <= i {
                            return; // not increasing
                        }
                        dates.push(GRID[j]);
                    }
                }
            } else {
                let k = 1 + c.pick(364) as u32; // ordinal 1..364
                let mut m = 1;
                let mut d = k;
                while d > MONTH_DAYS[(m - 1) as usize] {
                    d -= MONTH_DAYS[(m - 1) as usize];
                    m += 1;
                }
                dates.push((d, m));
            }
            dates.push((31, 12));
            c.note(format!("{:?}", dates));
            let weeks: Vec<WeekSchedule> = (0..dates.len()).map(|i| WeekSchedule { name: format!("W{}", i), days: vec!["D".to_string()], ..Default::default() }).collect();
            let year = YearSchedule { name: "Y".into(), days: dates.iter().map(|d| d.0).collect(), months: dates.iter().map(|d| d.1).collect(), weeks: weeks.iter().map(|w| w.name.clone()).collect(), ..Default::default() };
            let data = data_with(year, weeks.clone(), vec![day("D", vec![0.5])]);
            let maps = IdMaps::new(&data);
            let db = match schedules_from_bdl(&data, &maps) {
                Ok(db) => db,
                Err(e) => {
                    c.check("C17.convert.year.ok", false, || format!("conversion failed: {}", e));
                    return;
                }
            };
            let y = &db.year[0];
            let ords: Vec<u32> = dates.iter().map(|(d, m)| ordinal(*d, *m)).collect();
            let mut want = vec![];
            let mut prev = 0;
            for o in &ords {
                want.push(o - prev);
                prev = *o;
            }
            let got: Vec<u32> = y.values.iter().map(|v| v.1).collect();
            c.check("C17.convert.year.periods", got == want, || format!("period lengths {:?} want {:?}", got, want));
            c.check("C17.convert.year.partition", got.iter().sum::<u32>() == 365, || format!("period lengths add up to {}", got.iter().sum::<u32>()));
            let wids: Vec<Uuid> = weeks.iter().map(|w| maps.schedule_week_id(&w.name).unwrap()).collect();
            c.check("C17.convert.year.weeks", y.values.iter().map(|v| v.0).collect::<Vec<_>>() == wids, || "weekly schedule ids out of order".to_string());
            // and the converted database expands to exactly 365 days
            c.check("C17.convert.year.expands", db.get_year_as_day_sch(y.id).len() == 365, || format!("expands to {} days", db.get_year_as_day_sch(y.id).len()));
            c.nontrivial(format!("{:?}", dates));
            c.sample(|| format!("{:?} -> {:?}", dates, got));
        });
    }

    // weekly schedules into runs covering 7 days, daily ones into 24 values
    #[test]
    fn n_c17_convert_week_day() {
        drive("C17.convert.week", "schedules_from_bdl: every 7-day list over 2 daily schedule names (128), the 1-name form, daily schedules of 1 / 24 / other lengths", |c| {
            let form = c.pick(3);
            let names = ["A", "B"];
            let days_list: Vec<String> = if form == 0 {
                (0..7).map(|_| names[c.pick(2)].to_string()).collect()
            } else if form == 1 {
                vec![names[c.pick(2)].to_string()]
            } else {
                vec![]
            };
            let nvals = c.of(&[1usize, 24, 23, 0]);
            let dvals: Vec<f32> = (0..nvals).map(|h| (h as f32) / 100.0 + 0.25).collect();
            c.note(format!("week {:?} day values {}", days_list, nvals));
            let week = WeekSchedule { name: "W".into(), days: if form == 2 { vec!["A".to_string()] } else { days_list.clone() }, ..Default::default() };
            let year = YearSchedule { name: "Y".into(), days: vec![31], months: vec![12], weeks: vec!["W".into()], ..Default::default() };
            let data = data_with(year, vec![week], vec![day("A", dvals.clone()), day("B", vec![0.75])]);
            let maps = IdMaps::new(&data);
            let r = schedules_from_bdl(&data, &maps);
            if nvals != 1 && nvals != 24 {
                c.check("C17.convert.day.bad_length_rejected", r.is_err(), || format!("daily schedule with {} values accepted", nvals));
                return;
            }
            let db = match r {
                Ok(db) => db,
                Err(e) => {
                    c.check("C17.convert.week.ok", false, || format!("conversion failed: {}", e));
                    return;
                }
            };
            let a = db.day.iter().find(|d| d.name == "A").unwrap();
            c.check("C17.convert.day.24", a.values.len() == 24 && (0..24).all(|h| a.values[h] == if nvals == 1 { dvals[0] } else { dvals[h] }), || format!("daily values {:?}", a.values));
            if form != 2 {
                let w = &db.week[0];
                let expanded = w.to_day_sch();
                let ida = maps.schedule_day_id("A").unwrap();
                let idb = maps.schedule_day_id("B").unwrap();
                let want: Vec<Uuid> = if form == 0 { days_list.iter().map(|n| if n == "A" { ida } else { idb }).collect() } else { vec![if days_list[0] == "A" { ida } else { idb }; 7] };
                c.check("C17.convert.week.covers_7", expanded.len() == 7 && w.values.iter().map(|v| v.1).sum::<u32>() == 7, || format!("runs {:?}", w.values.iter().map(|v| v.1).collect::<Vec<_>>()));
                c.check("C17.convert.week.days", expanded == want, || "expanded weekly schedule differs from the 7-day list".to_string());
                c.check("C17.convert.week.runs_positive", w.values.iter().all(|v| v.1 >= 1), || "empty run".to_string());
                c.nontrivial(format!("{:?} {}", days_list, nvals));
            }
            c.sample(|| format!("week {:?} -> {:?}", days_list, db.week[0].values.iter().map(|v| v.1).collect::<Vec<_>>()));
        });
    }
}
