// Contracts for bemodel/src/convert/from_ctehexml.rs (calendar arithmetic, angle conventions).
#![allow(dead_code, unused_imports, non_snake_case, clippy::all)]

use super::*;

pub(crate) const MONTH_DAYS: [u32; 12] = [31, 28, 31, 30, 31, 30, 31, 31, 30, 31, 30, 31];

/// Calendar ordinal of (day, month) in a non-leap year, written from the calendar (independent oracle)
pub(crate) fn ordinal(day: u32, month: u32) -> u32 {
    let mut n = 0;
    let mut m = 1;
    while m < month {
        n += MONTH_DAYS[(m - 1) as usize];
        m += 1;
    }
    n + day
}

#[cfg(kani)]
mod k {
    use super::*;

    fn any_f32_in(lo: f32, hi: f32) -> f32 {
        let v: f32 = kani::any();
        kani::assume(v >= lo && v <= hi);
        v
    }

    // C17.doy: day_of_year agrees with the calendar for every date of the non-leap year
    #[kani::proof]
    #[kani::unwind(13)]
    fn c17_day_of_year() {
        let m: u32 = kani::any();
        let d: u32 = kani::any();
        kani::assume(m >= 1 && m <= 12);
        kani::assume(d >= 1 && d <= MONTH_DAYS[(m - 1) as usize]);
        kani::cover!(m == 12 && d == 31, "31 Dec reachable");
        let n = day_of_year(d, m);
        assert!(n == ordinal(d, m), "C17.doy.calendar");
        assert!(n >= 1 && n <= 365, "C17.doy.range");
        if m == 12 && d == 31 {
            assert!(n == 365, "C17.doy.last");
        }
    }

    // C03.azimuth: BDL azimuth (N=0, E+) -> ISO 52016 (S=0, E+): result in [-180,180], congruent to 180 - a
    #[kani::proof]
    fn c03_azimuth_convention() {
        let a = any_f32_in(-1080.0, 1080.0);
        kani::cover!(true, "precondition satisfiable");
        let r = orientation_bdl_to_52016(a);
        assert!(r >= -180.0 && r <= 180.0, "C03.azimuth.range");
        let d = ((r as f64) - (180.0 - a as f64)) / 360.0;
        let k = d.round();
        assert!((d - k).abs() <= 2.0e-6, "C03.azimuth.congruent");
    }

    // (the shift lemma r(a + d) - r(a) = -d (mod 360) is a consequence of C03.azimuth - both sides are congruent to
    //  180 - x; its direct Kani proof took 100 s to > 3000 s depending on load and was dropped as unstable; the bounded
    //  obligation C03.rotation.azimuth_shift checks it on converted projects)

    // C19: day_of_year returns for EVERY (day, month), also month 0, 13, 100 or u32::MAX read from a damaged file
    #[kani::proof]
    fn c19_day_of_year_total() {
        let d: u32 = kani::any();
        let m: u32 = kani::any();
        kani::cover!(m == 0 || m > 12, "out-of-range months reachable");
        let n = day_of_year(d, m);
        if m >= 1 && m <= 12 && d >= 1 && d <= MONTH_DAYS[(m - 1) as usize] {
            assert!(n == ordinal(d, m), "C19.day_of_year.calendar_for_valid_dates");
        }
    }
}

#[cfg(verif_native)]
mod n {
    use super::*;
    use crate::verif_root::support::*;
    use hulc::bdl::{DaySchedule, Schedule as BSchedule, WeekSchedule, YearSchedule};

    fn data_with(year: YearSchedule, weeks: Vec<WeekSchedule>, days: Vec<DaySchedule>) -> Data {
        let mut d = Data::default();
        for x in days {
            d.schedules.push(BSchedule::Day(x));
        }
        for x in weeks {
            d.schedules.push(BSchedule::Week(x));
        }
        d.schedules.push(BSchedule::Year(year));
        d
    }

    fn day(name: &str, values: Vec<f32>) -> DaySchedule {
        DaySchedule { name: name.to_string(), values, ..Default::default() }
    }

    const GRID: [(u32, u32); 14] = [(1, 1), (31, 1), (28, 2), (1, 3), (31, 3), (30, 4), (15, 6), (30, 6), (1, 7), (31, 7), (31, 8), (30, 9), (31, 10), (30, 12)];

    // C17.convert: end dates -> periods partitioning the 365-day year exactly at those dates
    #[test]
    fn n_c17_convert_year() {
        drive("C17.convert.year", "schedules_from_bdl: yearly schedules given by every increasing list of 0..2 end dates from a 14-date grid followed by 31 Dec, and by every single end date of the year followed by 31 Dec", |c| {
            let mode = c.pick(2);
            let mut dates: Vec<(u32, u32)> = vec![];
            if mode == 0 {
                let i = c.pick(GRID.len() + 1);
                if i < GRID.len() {
                    dates.push(GRID[i]);
                    let j = c.pick(GRID.len() + 1);
                    if j < GRID.len() {
                        if j <= i {
                            return; // not increasing
                        }
                        dates.push(GRID[j]);
                    }
                }
            } else {
                let k = 1 + c.pick(364) as u32; // ordinal 1..364
                let mut m = 1;
                let mut d = k;
                while d > MONTH_DAYS[(m - 1) as usize] {
                    d -= MONTH_DAYS[(m - 1) as usize];
                    m += 1;
                }
                dates.push((d, m));
            }
            dates.push((31, 12));
            c.note(format!("{:?}", dates));
            let weeks: Vec<WeekSchedule> = (0..dates.len()).map(|i| WeekSchedule { name: format!("W{}", i), days: vec!["D".to_string()], ..Default::default() }).collect();
            let year = YearSchedule { name: "Y".into(), days: dates.iter().map(|d| d.0).collect(), months: dates.iter().map(|d| d.1).collect(), weeks: weeks.iter().map(|w| w.name.clone()).collect(), ..Default::default() };
            let data = data_with(year, weeks.clone(), vec![day("D", vec![0.5])]);
            let maps = IdMaps::new(&data);
            let db = match schedules_from_bdl(&data, &maps) {
                Ok(db) => db,
                Err(e) => {
                    c.check("C17.convert.year.ok", false, || format!("conversion failed: {}", e));
                    return;
                }
            };
            let y = &db.year[0];
            let ords: Vec<u32> = dates.iter().map(|(d, m)| ordinal(*d, *m)).collect();
            let mut want = vec![];
            let mut prev = 0;
            for o in &ords {
                want.push(o - prev);
                prev = *o;
            }
            let got: Vec<u32> = y.values.iter().map(|v| v.1).collect();
            c.check("C17.convert.year.periods", got == want, || format!("period lengths {:?} want {:?}", got, want));
            c.check("C17.convert.year.partition", got.iter().sum::<u32>() == 365, || format!("period lengths add up to {}", got.iter().sum::<u32>()));
            // (ids read from the converted weekly schedules by name: the accessors of IdMaps are not part of the contract)
            let wids: Vec<Uuid> = weeks.iter().map(|w| db.week.iter().find(|x| x.name == w.name).map(|x| x.id).unwrap_or_default()).collect();
            c.check("C17.convert.year.weeks", y.values.iter().map(|v| v.0).collect::<Vec<_>>() == wids, || "weekly schedule ids out of order".to_string());
            // and the converted database expands to exactly 365 days
            c.check("C17.convert.year.expands", db.get_year_as_day_sch(y.id).len() == 365, || format!("expands to {} days", db.get_year_as_day_sch(y.id).len()));
            c.nontrivial(format!("{:?}", dates));
            c.sample(|| format!("{:?} -> {:?}", dates, got));
        });
    }

    // weekly schedules into runs covering 7 days, daily ones into 24 values
    #[test]
    fn n_c17_convert_week_day() {
        drive("C17.convert.week", "schedules_from_bdl: every 7-day list over 2 daily schedule names (128), the 1-name form, daily schedules of 1 / 24 / other lengths", |c| {
            let form = c.pick(3);
            let names = ["A", "B"];
            let days_list: Vec<String> = if form == 0 {
                (0..7).map(|_| names[c.pick(2)].to_string()).collect()
            } else if form == 1 {
                vec![names[c.pick(2)].to_string()]
            } else {
                vec![]
            };
            let nvals = c.of(&[1usize, 24, 23, 0]);
            let dvals: Vec<f32> = (0..nvals).map(|h| (h as f32) / 100.0 + 0.25).collect();
            c.note(format!("week {:?} day values {}", days_list, nvals));
            let week = WeekSchedule { name: "W".into(), days: if form == 2 { vec!["A".to_string()] } else { days_list.clone() }, ..Default::default() };
            let year = YearSchedule { name: "Y".into(), days: vec![31], months: vec![12], weeks: vec!["W".into()], ..Default::default() };
            let data = data_with(year, vec![week], vec![day("A", dvals.clone()), day("B", vec![0.75])]);
            let maps = IdMaps::new(&data);
            let r = schedules_from_bdl(&data, &maps);
            if nvals != 1 && nvals != 24 {
                c.check("C17.convert.day.bad_length_rejected", r.is_err(), || format!("daily schedule with {} values accepted", nvals));
                return;
            }
            let db = match r {
                Ok(db) => db,
                Err(e) => {
                    c.check("C17.convert.week.ok", false, || format!("conversion failed: {}", e));
                    return;
                }
            };
            let a = db.day.iter().find(|d| d.name == "A").unwrap();
            c.check("C17.convert.day.24", a.values.len() == 24 && (0..24).all(|h| a.values[h] == if nvals == 1 { dvals[0] } else { dvals[h] }), || format!("daily values {:?}", a.values));
            if form != 2 {
                let w = &db.week[0];
                let expanded = w.to_day_sch();
                let ida = db.day.iter().find(|d| d.name == "A").map(|d| d.id).unwrap_or_default();
                let idb = db.day.iter().find(|d| d.name == "B").map(|d| d.id).unwrap_or_default();
                let want: Vec<Uuid> = if form == 0 { days_list.iter().map(|n| if n == "A" { ida } else { idb }).collect() } else { vec![if days_list[0] == "A" { ida } else { idb }; 7] };
                c.check("C17.convert.week.covers_7", expanded.len() == 7 && w.values.iter().map(|v| v.1).sum::<u32>() == 7, || format!("runs {:?}", w.values.iter().map(|v| v.1).collect::<Vec<_>>()));
                c.check("C17.convert.week.days", expanded == want, || "expanded weekly schedule differs from the 7-day list".to_string());
                c.check("C17.convert.week.runs_positive", w.values.iter().all(|v| v.1 >= 1), || "empty run".to_string());
                c.nontrivial(format!("{:?} {}", days_list, nvals));
            }
            c.sample(|| format!("week {:?} -> {:?}", days_list, db.week[0].values.iter().map(|v| v.1).collect::<Vec<_>>()));
        });
    }

    // ---- C03: conversion preserves geometry --------------------------------------------------------------------
    // The shipped `cubo` project (10 x 10 x 3 box: four walls on the edges of the space outline, a floor taken from the
    // outline, two polygon-defined roofs, windows, vertex-defined shades) is re-written with a space offset and a
    // building deviation and converted with the real parser + converter. Oracle: the source definition itself.
    const CUBO: &str = include_str!(concat!(env!("CARGO_MANIFEST_DIR"), "/../hulc_tests/tests/cubo/cubo.ctehexml"));

    fn cubo_variant(off: (f32, f32, f32), dev: f32, outline: &[(f32, f32)]) -> String {
        cubo_variant_turned(off, dev, outline, 0.0)
    }

    /// ... with the space itself turned within the building (AZIMUTH of the SPACE, clockwise like every BDL angle)
    fn cubo_variant_turned(off: (f32, f32, f32), dev: f32, outline: &[(f32, f32)], space_az: f32) -> String {
        cubo_variant_full(off, dev, outline, space_az, 90.0, 0)
    }

    /// ... and with the overhang of every window at `oh_angle` degrees from the wall plane (90 = perpendicular,
    /// 0 = hanging down parallel to the wall, more than 90 = rising)
    /// `which`: 0 = overhang and both fins on every window, 1 = the right fin alone, 2 = the left fin alone, 3 = the
    /// overhang alone, 4 = the two fins
    fn cubo_variant_full(off: (f32, f32, f32), dev: f32, outline: &[(f32, f32)], space_az: f32, oh_angle: f32, which: usize) -> String {
        let mut s = CUBO.to_string();
        // building deviation from north (clockwise, degrees)
        let bp = s.find("= BUILD-PARAMETERS").expect("BUILD-PARAMETERS");
        let az = bp + s[bp..].find("AZIMUTH   = 0.000000").expect("AZIMUTH");
        s.replace_range(az..az + "AZIMUTH   = 0.000000".len(), &format!("AZIMUTH   = {:.6}", dev));
        // space offset
        let sp = s.find("\"P01_E01\" = SPACE").expect("SPACE");
        let eol = sp + s[sp..].find('\n').unwrap();
        s.insert_str(eol + 1, &format!("            X = {}\n            Y = {}\n            Z = {}\n{}", off.0, off.1, off.2, if space_az != 0.0 { format!("            AZIMUTH = {}\n", space_az) } else { String::new() }));
        // space outline
        let pg = s.find("\"P01_E01_Pol2\" = POLYGON").expect("space polygon");
        let end = pg + s[pg..].find("..").unwrap();
        let mut txt = String::from("\"P01_E01_Pol2\" = POLYGON\n");
        for (i, (x, y)) in outline.iter().enumerate() {
            txt.push_str(&format!("    V{}   =( {}, {} )\n", i + 1, x, y));
        }
        txt.push_str("    ");
        s.replace_range(pg..end, &txt);
        // a ceiling taken from the space outline (cubo's own roofs carry polygons): LOCATION = TOP, no POLYGON
        let fl = s.find("\"P01_E01C001\" = ROOF").expect("first ROOF block");
        s.insert_str(fl, "\"verif_TOP001\" = ROOF\n                  ABSORPTANCE   =            0.6\n                  CONSTRUCTION  = \"PIV por defecto\"\n                  LOCATION      = TOP\n                        ..\n                  \"PIV por defecto\" =  CONSTRUCTION\n                        TYPE   = LAYERS\n                        LAYERS = \"PIV por defecto\"\n                        ..\n            ");
        // rectangular shades (origin, width, height, BDL azimuth of the outward normal clockwise from +Y, tilt)
        let sh = s.find("\"Sombra007\" = BUILDING-SHADE").expect("a BUILDING-SHADE block");
        let mut blocks = String::new();
        for (name, x, y, z, w, h, az, tilt) in RECT_SHADES.iter() {
            blocks.push_str(&format!("\"{}\" = BUILDING-SHADE\n      BULB-TRA = \"Default.bulb\"\n      BULB-REF = \"Default.bulb\"\n      TRAN     =              0\n      REFL     =            0.7\n      X        = {}\n      Y        = {}\n      Z        = {}\n      HEIGHT   = {}\n      WIDTH    = {}\n      TILT     = {}\n      AZIMUTH  = {}\n           ..\n", name, x, y, z, h, w, tilt, az));
        }
        s.insert_str(sh, &blocks);
        // an overhang and two fins on every window (or only some of the three)
        let all = with_window_protections(&s, 6).replace("OVERHANG-ANGLE = 90", &format!("OVERHANG-ANGLE = {}", oh_angle));
        let drop: &[&str] = match which {
            1 => &["OVERHANG-", "LEFT-FIN-"],
            2 => &["OVERHANG-", "RIGHT-FIN-"],
            3 => &["LEFT-FIN-", "RIGHT-FIN-"],
            4 => &["OVERHANG-"],
            _ => &[],
        };
        all.split_inclusive('\n').filter(|l| !drop.iter().any(|d| l.trim_start().starts_with(d))).collect()
    }

    const RECT_SHADES: [(&str, f32, f32, f32, f32, f32, f32, f32); 3] = [
        ("vrf_screen_east", 12.0, 3.0, 0.0, 8.0, 6.0, 90.0, 90.0),
        ("vrf_screen_ssw", -5.0, 20.0, 1.5, 10.0, 4.0, 200.0, 90.0),
        ("vrf_canopy_nw", 4.0, -7.0, 3.0, 5.0, 3.0, 315.0, 60.0),
    ];

    fn world_corners(g: &WallGeom) -> Vec<Point3<f32>> {
        let m = g.to_global_coords_matrix().expect("positioned");
        g.polygon.iter().map(|p| m * point![p.x, p.y, 0.0]).collect()
    }

    fn same_set(a: &[Point3<f32>], b: &[Point3<f32>], tol: f32) -> bool {
        a.iter().all(|p| b.iter().any(|q| (p - q).norm() <= tol)) && b.iter().all(|q| a.iter().any(|p| (p - q).norm() <= tol))
    }

    #[test]
    fn n_c03_conversion() {
        drive("C03.conversion", "shipped project `cubo` re-written with space offset {(0,0,0),(3,7,0),(-4,2,1.5)} x building deviation {0,30,135,270} x space turned within the building by {0,30,250} (zero offset) x outline {square 10x10, trapezoid}; an overhang (at 90 / 60 / 120 degrees from the wall) and two fins on every window - or the right fin / the left fin / the overhang alone, or the two fins -; the SPACE block with / without a HEIGHT of its own that differs from the storey height; parsed and converted by the real code; positions to 1 cm against the source definition", |c| {
            let off = c.of(&[(0.0f32, 0.0f32, 0.0f32), (3.0, 7.0, 0.0), (-4.0, 2.0, 1.5)]);
            let dev = c.of(&[0.0f32, 30.0, 135.0, 270.0]);
            // a space turned within the building: with a zero offset, so that the order of turning and shifting the
            // space does not matter for the expected positions
            let space_az = c.of(&[0.0f32, 30.0, 250.0]);
            if space_az != 0.0 && off != (0.0, 0.0, 0.0) {
                return;
            }
            // overhangs perpendicular to the wall, sloping down (60) and rising (120)
            let oh_angle = c.of(&[90.0f32, 60.0, 120.0]);
            let square = c.flag();
            let outline: Vec<(f32, f32)> = if square { vec![(0.0, 0.0), (10.0, 0.0), (10.0, 10.0), (0.0, 10.0)] } else { vec![(0.0, 0.0), (10.0, 0.0), (8.0, 6.0), (1.0, 7.0)] };
            // which of the three protections the windows carry (all / one alone / the two fins): with the other angles
            // only for the full set
            let which = c.pick(5);
            if which != 0 && oh_angle != 90.0 {
                return;
            }
            // the SPACE block may state a HEIGHT of its own: the storey height (SPACE-HEIGHT of its FLOOR, 3 m) is what counts
            let own_height = which == 0 && oh_angle == 90.0 && c.flag();
            c.note(format!("offset {:?} deviation {} space azimuth {} overhang angle {} outline {:?} protections {}{}", off, dev, space_az, oh_angle, outline, ["overhang + both fins", "right fin alone", "left fin alone", "overhang alone", "both fins"][which], if own_height { ", SPACE HEIGHT = 2.6 written" } else { "" }));
            let mut text = cubo_variant_full(off, dev, &outline, space_az, oh_angle, which);
            if own_height {
                let (from, to) = ("nCompleto = \"P01_E01\"\n              HEIGHT        =              3\n", "nCompleto = \"P01_E01\"\n              HEIGHT        =            2.6\n");
                c.check("C03.conversion.variant_written", text.contains(from), || "the HEIGHT line of the SPACE block was not found".to_string());
                text = text.replacen(from, to, 1);
            }
            let data = match hulc::ctehexml::parse_with_catalog(&text) {
                Ok(d) => d,
                Err(e) => {
                    c.check("C03.conversion.parses", false, || format!("parse failed: {}", e));
                    return;
                }
            };
            let model = match Model::try_from(&data) {
                Ok(m) => m,
                Err(e) => {
                    c.check("C03.conversion.converts", false, || format!("conversion failed: {}", e));
                    return;
                }
            };
            // building coordinates -> world: turn clockwise by the deviation
            let rot = Rotation3::from_euler_angles(0.0, 0.0, -(dev as f32).to_radians());
            let rot_space = Rotation3::from_euler_angles(0.0, 0.0, -(space_az as f32).to_radians());
            let to_world = |x: f32, y: f32, z: f32| rot * (rot_space * point![x, y, z] + Vector3::new(off.0, off.1, off.2));
            let centroid = {
                let n = outline.len() as f32;
                let (sx, sy) = outline.iter().fold((0.0, 0.0), |a, p| (a.0 + p.0, a.1 + p.1));
                to_world(sx / n, sy / n, 1.5)
            };
            let height = 3.0f32;
            let mut n_edge = 0;
            let mut n_ceiling = 0;
            for bw in &data.bdldata.walls {
                let w = match model.walls.iter().find(|w| w.name == bw.name) {
                    Some(w) => w,
                    None => {
                        c.check("C03.conversion.all_walls", false, || format!("wall {} missing in the model", bw.name));
                        continue;
                    }
                };
                let got = world_corners(&w.geometry);
                match bw.location.as_deref() {
                    Some(loc) if loc.starts_with('V') => {
                        let k: usize = loc[1..].parse::<usize>().unwrap() - 1;
                        let (p, q) = (outline[k], outline[(k + 1) % outline.len()]);
                        let want = vec![to_world(p.0, p.1, 0.0), to_world(q.0, q.1, 0.0), to_world(q.0, q.1, height), to_world(p.0, p.1, height)];
                        c.check("C03.edge_wall.spans_edge", same_set(&got, &want, 0.01), || format!("wall {} on {}: corners {:?} want {:?}", bw.name, loc, got, want));
                        let mid = to_world((p.0 + q.0) / 2.0, (p.1 + q.1) / 2.0, 1.5);
                        let nrm = crate::types::HasSurface::normal(&w.geometry);
                        c.check("C03.edge_wall.normal_outward", nrm.dot(&(mid - centroid)) > 0.0 && nrm.z.abs() < 1e-3, || format!("wall {} normal {:?} does not point away from the space", bw.name, nrm));
                        let len = ((q.0 - p.0).powi(2) + (q.1 - p.1).powi(2)).sqrt();
                        c.check("C03.area", (w.area() - len * height).abs() <= 0.02, || format!("wall {} area {} want {}", bw.name, w.area(), len * height));
                        n_edge += 1;
                    }
                    Some("TOP") if bw.polygon.is_none() => {
                        let want: Vec<_> = outline.iter().map(|p| to_world(p.0, p.1, height)).collect();
                        c.check("C03.ceiling.reproduces_outline", same_set(&got, &want, 0.01), || format!("ceiling {}: corners {:?} want {:?}", bw.name, got, want));
                        let nrm = crate::types::HasSurface::normal(&w.geometry);
                        c.check("C03.ceiling.faces_up", nrm.z > 0.99, || format!("ceiling {} normal {:?}", bw.name, nrm));
                        n_ceiling += 1;
                    }
                    Some("BOTTOM") => {
                        let want: Vec<_> = outline.iter().map(|p| to_world(p.0, p.1, 0.0)).collect();
                        c.check("C03.floor.reproduces_outline", same_set(&got, &want, 0.01), || format!("floor {}: corners {:?} want {:?}", bw.name, got, want));
                        let a = {
                            let n = outline.len();
                            (0..n).map(|i| outline[i].0 * outline[(i + 1) % n].1 - outline[i].1 * outline[(i + 1) % n].0).sum::<f32>().abs() / 2.0
                        };
                        c.check("C03.area", (w.area() - a).abs() <= 0.02, || format!("floor area {} want {}", w.area(), a));
                    }
                    _ => {
                        // polygon-defined roofs of the source project: they tile the 10 x 10 outline at ceiling level
                        if square && bw.polygon.is_some() {
                            let sq: Vec<_> = outline.iter().map(|p| to_world(p.0, p.1, height)).collect();
                            c.check("C03.roof.corners", got.iter().all(|p| sq.iter().any(|q| (p - q).norm() <= 0.02)), || format!("roof {}: corners {:?} not on the outline at ceiling level {:?}", bw.name, got, sq));
                        }
                    }
                }
            }
            c.check("C03.conversion.edge_walls_seen", n_edge == 4 && n_ceiling == 1, || format!("{} edge walls, {} ceilings from the outline", n_edge, n_ceiling));
            // windows keep size, offset and setback within their wall
            for bwin in &data.bdldata.windows {
                match model.windows.iter().find(|w| w.name == bwin.name) {
                    None => c.check("C03.window.present", false, || format!("window {} missing", bwin.name)),
                    Some(w) => {
                        let g = &w.geometry;
                        // the overhang and the fins written on the window: where the source definition puts them
                        // (wall coordinates: x to the right seen from outside, y up, depth along the outward normal)
                        if let Some(bw) = data.bdldata.walls.iter().find(|x| x.name == bwin.wall) {
                            if let Some(loc) = bw.location.as_deref().filter(|l| l.starts_with('V')) {
                                let kk: usize = loc[1..].parse::<usize>().unwrap() - 1;
                                let (p, q) = (outline[kk], outline[(kk + 1) % outline.len()]);
                                let len = ((q.0 - p.0).powi(2) + (q.1 - p.1).powi(2)).sqrt();
                                let (ux, uy) = ((q.0 - p.0) / len, (q.1 - p.1) / len);
                                let (nx, ny) = (uy, -ux);
                                // point at wall coordinates (x, y) pushed out by d
                                let at = |x: f32, y: f32, d: f32| to_world(p.0 + x * ux + d * nx, p.1 + x * uy + d * ny, y);
                                let top = bwin.y + bwin.height;
                                let mut expect: Vec<(String, Vec<Point3<f32>>)> = vec![];
                                if let Some(o) = &bwin.overhang {
                                    let (x0, y0) = (bwin.x - o.a, top + o.b);
                                    // the outer edge: `angle` away from the downward wall direction, turning outwards
                                    let (dy, dn) = (-(o.angle.to_radians().cos()) * o.depth, o.angle.to_radians().sin() * o.depth);
                                    expect.push((format!("{}_overhang", bwin.name), vec![at(x0, y0, 0.0), at(x0 + o.width, y0, 0.0), at(x0 + o.width, y0 + dy, dn), at(x0, y0 + dy, dn)]));
                                }
                                if let Some(f) = &bwin.left_fin {
                                    let (x0, y0) = (bwin.x - f.a, top - f.b);
                                    expect.push((format!("{}_left_fin", bwin.name), vec![at(x0, y0, 0.0), at(x0, y0 - f.height, 0.0), at(x0, y0 - f.height, f.depth), at(x0, y0, f.depth)]));
                                }
                                if let Some(f) = &bwin.right_fin {
                                    let (x0, y0) = (bwin.x + bwin.width + f.a, top - f.b);
                                    expect.push((format!("{}_right_fin", bwin.name), vec![at(x0, y0, 0.0), at(x0, y0 - f.height, 0.0), at(x0, y0 - f.height, f.depth), at(x0, y0, f.depth)]));
                                }
                                c.check("C03.window.protections_written", expect.len() == [3, 1, 1, 1, 2][which], || format!("window {}: {} of {} protections parsed", bwin.name, expect.len(), [3, 1, 1, 1, 2][which]));
                                // ... and nothing else hangs from this window
                                let attached = model.shades.iter().filter(|m| m.name.starts_with(&format!("{}_", bwin.name))).count();
                                c.check("C03.window.protection.count", attached == expect.len(), || format!("window {}: {} shades attached, {} written", bwin.name, attached, expect.len()));
                                for (sname, want) in expect {
                                    match model.shades.iter().find(|m| m.name == sname) {
                                        None => c.check("C03.window.protection.present", false, || format!("shade {} missing", sname)),
                                        Some(ms) => {
                                            let got = world_corners(&ms.geometry);
                                            c.check("C03.window.protection.corners", same_set(&got, &want, 0.011), || format!("{}: corners {:?} want {:?}", sname, got, want));
                                        }
                                    }
                                }
                            }
                        }
                        c.check("C03.window.keeps_geometry", (g.width - bwin.width).abs() < 0.01 && (g.height - bwin.height).abs() < 0.01 && (g.setback - bwin.setback).abs() < 0.01 && matches!(g.position, Some(p) if (p.x - bwin.x).abs() < 0.01 && (p.y - bwin.y).abs() < 0.01), || format!("window {}: {:?} vs source ({}, {}) {}x{} setback {}", bwin.name, g, bwin.x, bwin.y, bwin.width, bwin.height, bwin.setback));
                    }
                }
            }
            // vertex-defined shades keep their corner points (building coordinates turned by the deviation)
            for sh in &data.bdldata.shadings {
                if let Some(ms) = model.shades.iter().find(|m| m.name == sh.name) {
                    if let Some(verts) = &sh.vertices {
                        let want: Vec<_> = verts.iter().map(|v| rot * point![v.x, v.y, v.z]).collect();
                        let got = world_corners(&ms.geometry);
                        c.check("C03.shade.corners", same_set(&got, &want, 0.011), || format!("shade {}: corners {:?} want {:?}", sh.name, got, want));
                    }
                }
            }
            // rectangular shades keep their corner points: origin, width to the right seen from outside, height up the slope
            for (name, x, y, z, w, h, az, tilt) in RECT_SHADES.iter() {
                match model.shades.iter().find(|m| m.name == *name) {
                    None => c.check("C03.shade.rect.present", false, || format!("rectangular shade {} missing", name)),
                    Some(ms) => {
                        let (a, t) = (az.to_radians(), tilt.to_radians());
                        let n_h = Vector3::new(a.sin(), a.cos(), 0.0);
                        let u = Vector3::new(-a.cos(), a.sin(), 0.0);
                        let v = -t.cos() * n_h + t.sin() * Vector3::z();
                        let o = point![*x, *y, *z];
                        let want: Vec<_> = [o, o + *w * u, o + *w * u + *h * v, o + *h * v].iter().map(|p| rot * p).collect();
                        let got = world_corners(&ms.geometry);
                        c.check("C03.shade.rect.corners", same_set(&got, &want, 0.011), || format!("rectangular shade {}: corners {:?} want {:?}", name, got, want));
                    }
                }
            }
            // turning the building leaves areas, volumes, K and n50 unchanged (compared with the unturned variant)
            if dev != 0.0 {
                let base = Model::try_from(&hulc::ctehexml::parse_with_catalog(&cubo_variant_full(off, 0.0, &outline, space_az, oh_angle, which)).unwrap()).unwrap();
                let (a, b) = (model.energy_indicators(), base.energy_indicators());
                c.check("C03.rotation.invariants", (a.area_ref - b.area_ref).abs() < 0.011 && (a.vol_env_net - b.vol_env_net).abs() < 0.011 && (a.K_data.K - b.K_data.K).abs() < 1e-3 && (a.n50_data.n50 - b.n50_data.n50).abs() < 1e-3, || format!("turned by {}: A {} / {} V {} / {} K {} / {} n50 {} / {}", dev, a.area_ref, b.area_ref, a.vol_env_net, b.vol_env_net, a.K_data.K, b.K_data.K, a.n50_data.n50, b.n50_data.n50));
                // every azimuth shifts by -dev (mod 360)
                for (w, w0) in model.walls.iter().zip(base.walls.iter()) {
                    let d = (w0.geometry.azimuth - w.geometry.azimuth - dev).rem_euclid(360.0);
                    c.check("C03.rotation.azimuth_shift", d < 0.02 || d > 359.98, || format!("wall {}: azimuth {} -> {} after turning by {}", w.name, w0.geometry.azimuth, w.geometry.azimuth, dev));
                }
            }
            c.nontrivial(format!("{:?} {} {} {} {}", off, dev, space_az, oh_angle, square));
            c.sample(|| format!("offset {:?} deviation {} square {} -> {} walls {} windows {} shades", off, dev, square, model.walls.len(), model.windows.len(), model.shades.len()));
        });
    }

    // ---- C02: converted models are referentially closed, or conversion fails with an error -----------------------
    use std::collections::HashSet;
    use std::path::{Path, PathBuf};

    fn tests_root() -> PathBuf {
        crate_dir(env!("CARGO_MANIFEST_DIR")).join("../hulc_tests/tests")
    }

    fn files_with_ext(dir: &Path, ext: &str, out: &mut Vec<PathBuf>) {
        let mut entries: Vec<PathBuf> = std::fs::read_dir(dir).map(|r| r.filter_map(|e| e.ok().map(|e| e.path())).collect()).unwrap_or_default();
        entries.sort();
        for p in entries {
            if p.is_dir() {
                files_with_ext(&p, ext, out);
            } else if p.extension().and_then(|e| e.to_str()).map(|e| e.eq_ignore_ascii_case(ext)).unwrap_or(false) {
                out.push(p);
            }
        }
    }

    /// Every link the property lists, checked against the model itself (independent of Model::check)
    pub(crate) fn closure_violations(m: &Model) -> Vec<String> {
        let mut out = vec![];
        fn uniq(kind: &str, ids: Vec<Uuid>, out: &mut Vec<String>) -> HashSet<Uuid> {
            let mut set = HashSet::new();
            for id in ids {
                if id.is_nil() {
                    out.push(format!("nil id in {}", kind));
                }
                if !set.insert(id) {
                    out.push(format!("duplicate id {} in {}", id, kind));
                }
            }
            set
        }
        let spaces = uniq("spaces", m.spaces.iter().map(|x| x.id).collect(), &mut out);
        let walls = uniq("walls", m.walls.iter().map(|x| x.id).collect(), &mut out);
        uniq("windows", m.windows.iter().map(|x| x.id).collect(), &mut out);
        uniq("shades", m.shades.iter().map(|x| x.id).collect(), &mut out);
        uniq("thermal_bridges", m.thermal_bridges.iter().map(|x| x.id).collect(), &mut out);
        let wallcons = uniq("wallcons", m.cons.wallcons.iter().map(|x| x.id).collect(), &mut out);
        let wincons = uniq("wincons", m.cons.wincons.iter().map(|x| x.id).collect(), &mut out);
        let materials = uniq("materials", m.cons.materials.iter().map(|x| x.id).collect(), &mut out);
        let glasses = uniq("glasses", m.cons.glasses.iter().map(|x| x.id).collect(), &mut out);
        let frames = uniq("frames", m.cons.frames.iter().map(|x| x.id).collect(), &mut out);
        let loads = uniq("loads", m.loads.iter().map(|x| x.id).collect(), &mut out);
        let thermostats = uniq("thermostats", m.thermostats.iter().map(|x| x.id).collect(), &mut out);
        let years = uniq("schedules.year", m.schedules.year.iter().map(|x| x.id).collect(), &mut out);
        let weeks = uniq("schedules.week", m.schedules.week.iter().map(|x| x.id).collect(), &mut out);
        let days = uniq("schedules.day", m.schedules.day.iter().map(|x| x.id).collect(), &mut out);
        let mut link = |what: String, id: Uuid, set: &HashSet<Uuid>| {
            if !set.contains(&id) {
                out.push(format!("{} -> {} does not resolve", what, id));
            }
        };
        for w in &m.walls {
            link(format!("wall {} space", w.name), w.space, &spaces);
            link(format!("wall {} cons", w.name), w.cons, &wallcons);
            if let Some(n) = w.next_to {
                link(format!("wall {} next_to", w.name), n, &spaces);
            }
        }
        for w in &m.windows {
            link(format!("window {} wall", w.name), w.wall, &walls);
            link(format!("window {} cons", w.name), w.cons, &wincons);
        }
        for c in &m.cons.wallcons {
            for l in &c.layers {
                link(format!("wallcons {} layer", c.name), l.material, &materials);
            }
        }
        for c in &m.cons.wincons {
            link(format!("wincons {} glass", c.name), c.glass, &glasses);
            link(format!("wincons {} frame", c.name), c.frame, &frames);
        }
        for s in &m.spaces {
            if let Some(l) = s.loads {
                link(format!("space {} loads", s.name), l, &loads);
            }
            if let Some(t) = s.thermostat {
                link(format!("space {} thermostat", s.name), t, &thermostats);
            }
        }
        for l in &m.loads {
            for (k, v) in [("people", l.people_schedule), ("equipment", l.equipment_schedule), ("lighting", l.lighting_schedule)] {
                if let Some(id) = v {
                    link(format!("loads {} {}_schedule", l.name, k), id, &years);
                }
            }
        }
        for t in &m.thermostats {
            for (k, v) in [("temp_max", t.temp_max), ("temp_min", t.temp_min)] {
                if let Some(id) = v {
                    link(format!("thermostat {} {}", t.name, k), id, &years);
                }
            }
        }
        for y in &m.schedules.year {
            for (id, _) in &y.values {
                link(format!("year schedule {} week", y.name), *id, &weeks);
            }
        }
        for w in &m.schedules.week {
            for (id, _) in &w.values {
                link(format!("week schedule {} day", w.name), *id, &days);
            }
        }
        out
    }

    /// number of optional links that are present in the model
    fn optional_links(m: &Model) -> usize {
        m.spaces.iter().map(|s| s.loads.is_some() as usize + s.thermostat.is_some() as usize).sum::<usize>()
            + m.walls.iter().filter(|w| w.next_to.is_some()).count()
            + m.loads.iter().map(|l| l.people_schedule.is_some() as usize + l.equipment_schedule.is_some() as usize + l.lighting_schedule.is_some() as usize).sum::<usize>()
            + m.thermostats.iter().map(|t| t.temp_max.is_some() as usize + t.temp_min.is_some() as usize).sum::<usize>()
    }

    enum Outcome {
        Model(Box<Model>),
        Rejected(String),
        Crashed(String),
        Hung,
    }

    fn convert_guarded(run: impl FnOnce() -> Result<Model, anyhow::Error> + Send + 'static) -> Outcome {
        let r = run_with_timeout(60, move || {
            std::panic::catch_unwind(std::panic::AssertUnwindSafe(run)).map_err(|e| {
                if let Some(s) = e.downcast_ref::<&str>() {
                    s.to_string()
                } else if let Some(s) = e.downcast_ref::<String>() {
                    s.clone()
                } else {
                    "panic".to_string()
                }
            })
        });
        match r {
            None => Outcome::Hung,
            Some(Err(msg)) => Outcome::Crashed(msg),
            Some(Ok(Err(e))) => Outcome::Rejected(e.to_string()),
            Some(Ok(Ok(m))) => Outcome::Model(Box::new(m)),
        }
    }

    fn convert_text(text: String) -> Outcome {
        convert_guarded(move || Model::try_from(&hulc::ctehexml::parse_with_catalog(&text)?))
    }

    /// legacy LIDER file: the BDL text alone; general data as HULC would write for a new D3 dwelling
    fn convert_cte(path: PathBuf) -> Outcome {
        convert_guarded(move || {
            let mut data = hulc::ctehexml::CtehexmlData::default();
            data.bdldata = Data::new_from_path(&path)?;
            let cat = hulc::ctehexml::load_lider_catalog()?;
            data.bdldata.db.materials.extend(cat.materials);
            data.bdldata.db.wallcons.extend(cat.wallcons);
            data.bdldata.db.wincons.extend(cat.wincons);
            data.bdldata.db.glasses.extend(cat.glasses);
            data.bdldata.db.frames.extend(cat.frames);
            data.datos_generales.archivo_climatico = "D3".to_string();
            data.datos_generales.tipo_vivienda = "Unifamiliar".to_string();
            Model::try_from(&data)
        })
    }

    fn judge_model(c: &mut Ctx, what: &str, m: &Model) {
        let v = closure_violations(m);
        c.check("C02.closed", v.is_empty(), || format!("{}: {} broken links / ids, first: {:?}", what, v.len(), &v[..v.len().min(3)]));
        // the checker's other clause - a thermal bridge whose written length is negative - is not about links
        let w = crate::checks::check(m);
        let negative_lengths = m.thermal_bridges.iter().filter(|tb| tb.l < 0.0).count();
        c.check("C02.checker_silent", w.len() == negative_lengths, || format!("{}: model checker reports {:?}", what, w.iter().take(3).map(|x| x.msg.clone()).collect::<Vec<_>>()));
    }

    #[test]
    fn n_c02_shipped_closed() {
        let mut projects = vec![];
        files_with_ext(&tests_root(), "ctehexml", &mut projects);
        let mut legacy = vec![];
        files_with_ext(&tests_root().join("liderdata"), "cte", &mut legacy);
        let n_projects = projects.len();
        let all: Vec<PathBuf> = projects.into_iter().chain(legacy.into_iter()).collect();
        drive("C02.shipped", "every .ctehexml project and every legacy LIDER .cte file under hulc_tests/tests, parsed and converted by the real code: ids unique per collection, every listed link resolves, model checker silent", |c| {
            c.check("C02.shipped.corpus", n_projects >= 12 && all.len() >= 60, || format!("corpus shrank: {} projects, {} files in all", n_projects, all.len()));
            let k = c.pick(all.len());
            let path = all[k].clone();
            let name = path.file_name().unwrap().to_string_lossy().to_string();
            c.note(name.clone());
            let outcome = if k < n_projects {
                match std::fs::read_to_string(&path) {
                    Ok(t) => convert_text(t),
                    Err(e) => Outcome::Rejected(format!("unreadable as UTF-8: {}", e)),
                }
            } else {
                convert_cte(path)
            };
            match outcome {
                Outcome::Model(m) => {
                    judge_model(c, &name, &m);
                    c.nontrivial(name.clone());
                    c.sample(|| format!("{}: {} spaces {} walls {} windows {} wallcons {} schedules", name, m.spaces.len(), m.walls.len(), m.windows.len(), m.cons.wallcons.len(), m.schedules.year.len()));
                }
                Outcome::Rejected(e) => {
                    // shipped .ctehexml projects are intact and convert; a legacy file may be rejected with an error
                    c.check("C02.shipped.converts", k >= n_projects, || format!("{} no longer converts: {}", name, e));
                    c.sample(|| format!("{}: rejected: {}", name, e.chars().take(100).collect::<String>()));
                }
                Outcome::Crashed(msg) => c.check("C02.rejects_with_error", false, || format!("{}: conversion panicked: {}", name, msg)),
                Outcome::Hung => {
                    c.check("C02.rejects_with_error", false, || format!("{}: conversion did not return in 60 s", name));
                    c.stop();
                }
            }
        });
    }

    #[test]
    fn n_c02_protections() {
        let files = project_files();
        drive("C02.protections", "the 12 shipped projects with right fins / left fins / overhangs / all three / symmetric fins + overhang written on every window (shipped projects have almost none): ids unique per collection - the generated shades included -, every link resolves, model checker silent", |c| {
            let k = c.pick(files.len());
            let v = 1 + c.pick(5);
            let fname = files[k].file_name().unwrap().to_string_lossy().to_string();
            c.note(format!("{} window protections {}", fname, v));
            let text = with_window_protections(&std::fs::read_to_string(&files[k]).unwrap(), v);
            match convert_text(text) {
                Outcome::Model(m) => {
                    judge_model(c, &format!("{} with window protections {}", fname, v), &m);
                    c.check("C02.protections.generated", m.windows.is_empty() || m.shades.iter().any(|s| s.name.ends_with("_fin") || s.name.ends_with("_overhang")), || format!("{}: no fin / overhang shade generated", fname));
                    c.nontrivial(format!("{} {}", fname, v));
                    c.sample(|| format!("{} protections {}: {} windows, {} shades, closed", fname, v, m.windows.len(), m.shades.len()));
                }
                Outcome::Rejected(e) => c.check("C02.protections.converts", false, || format!("{} with window protections {} is rejected: {}", fname, v, e)),
                Outcome::Crashed(msg) => c.check("C02.rejects_with_error", false, || format!("{} with window protections {}: conversion panicked: {}", fname, v, msg)),
                Outcome::Hung => {
                    c.check("C02.rejects_with_error", false, || format!("{} with window protections {}: no answer in 60 s", fname, v));
                    c.stop();
                }
            }
        });
    }

    /// (byte offset of the name, name, block kind) of every `"NAME" = KIND` definition line of a BDL text
    fn definitions(text: &str) -> Vec<(usize, String, String)> {
        let mut out = vec![];
        let mut off = 0;
        for line in text.split_inclusive('\n') {
            let t = line.trim_start();
            if t.starts_with('"') {
                if let Some(q) = t[1..].find('"') {
                    let name = &t[1..1 + q];
                    let rest = t[q + 2..].trim();
                    if let Some(kind) = rest.strip_prefix('=') {
                        let kind = kind.trim();
                        if !kind.is_empty() && !name.is_empty() && kind.chars().all(|ch| ch.is_ascii_uppercase() || ch == '-' || ch == '_') {
                            out.push((off + (line.len() - t.len()) + 1, name.to_string(), kind.to_string()));
                        }
                    }
                }
            }
            off += line.len();
        }
        out
    }

    fn is_referenced(text: &str, name: &str, def_at: usize) -> bool {
        let pat = format!("\"{}\"", name);
        let mut from = 0;
        while let Some(i) = text[from..].find(&pat) {
            let at = from + i;
            if at + 1 != def_at {
                return true;
            }
            from = at + pat.len();
        }
        false
    }

    fn broken_refs(obligation: &'static str, scope: &'static str, pick_projects: fn(&[PathBuf]) -> Vec<PathBuf>) {
        let mut projects = vec![];
        files_with_ext(&tests_root(), "ctehexml", &mut projects);
        let chosen = pick_projects(&projects);
        let texts: Vec<(String, String, Vec<(usize, String, String)>, usize)> = chosen
            .iter()
            .map(|p| {
                let t = std::fs::read_to_string(p).expect("project text");
                let defs: Vec<_> = definitions(&t).into_iter().filter(|(at, name, _)| is_referenced(&t, name, *at)).collect();
                let links = match convert_text(t.clone()) {
                    Outcome::Model(m) => optional_links(&m),
                    _ => usize::MAX,
                };
                (p.file_name().unwrap().to_string_lossy().to_string(), t, defs, links)
            })
            .collect();
        drive(obligation, scope, |c| {
            c.check("C02.broken.corpus", !texts.is_empty() && texts.iter().all(|t| t.2.len() >= 10), || "projects or their definitions not found".to_string());
            let k = c.pick(texts.len());
            let (fname, text, defs, base_links) = &texts[k];
            c.check("C02.broken.base_converts", *base_links != usize::MAX, || format!("{} itself does not convert", fname));
            let d = c.pick(defs.len());
            let (at, name, kind) = &defs[d];
            let edit = c.pick(3);
            let what = ["renamed", "renamed to lower case", "removed"][edit];
            c.note(format!("{}: {} \"{}\" {}", fname, kind, name, what));
            let mut t = text.clone();
            match edit {
                // the definition gets another name: every reference to the old name now dangles
                0 => t.insert_str(at + name.len(), "_renamed"),
                // names are case-sensitive
                1 => {
                    let lower = name.to_lowercase();
                    if lower == *name {
                        return;
                    }
                    t.replace_range(*at..at + name.len(), &lower);
                }
                // the whole block goes (from its first line to the line that closes it with `..`)
                _ => {
                    let start = text[..*at].rfind('\n').map(|i| i + 1).unwrap_or(0);
                    let mut end = start;
                    for line in text[start..].split_inclusive('\n') {
                        end += line.len();
                        if line.trim_end().ends_with("..") {
                            break;
                        }
                    }
                    t.replace_range(start..end, "");
                }
            }
            let renamed = edit < 2;
            match convert_text(t) {
                Outcome::Model(m) => {
                    // still converted (e.g. the name also exists in the catalogue): then it must be closed
                    judge_model(c, &format!("{} with {} \"{}\" {}", fname, kind, name, what), &m);
                    // ... and no optional link (space -> loads / thermostat, wall -> adjacent space, loads / thermostat ->
                    // schedule) that the intact project has may silently go missing
                    let links = optional_links(&m);
                    c.check("C02.broken.no_missing_links", !renamed || links >= *base_links, || format!("{} with {} \"{}\" {}: converted to a model with {} optional links, the intact project has {}", fname, kind, name, what, links, base_links));
                    c.nontrivial(format!("{} still converts", kind));
                    c.sample(|| format!("{}: {} \"{}\" {} -> still a closed model", fname, kind, name, what));
                }
                Outcome::Rejected(e) => {
                    c.check("C02.broken.rejected", !e.is_empty(), || "empty error".to_string());
                    c.nontrivial(format!("{} {}", kind, e.chars().take(40).collect::<String>()));
                    c.sample(|| format!("{}: {} \"{}\" {} -> error: {}", fname, kind, name, what, e.chars().take(90).collect::<String>()));
                }
                Outcome::Crashed(msg) => c.check("C02.rejects_with_error", false, || format!("{} with {} \"{}\" {}: conversion panicked instead of returning an error: {}", fname, kind, name, what, msg.chars().take(200).collect::<String>())),
                Outcome::Hung => {
                    c.check("C02.rejects_with_error", false, || format!("{} with {} \"{}\" {}: no answer in 60 s", fname, kind, name, what));
                    c.stop();
                }
            }
        });
    }

    #[test]
    fn n_c02_broken_refs() {
        broken_refs("C02.broken", "all 12 shipped .ctehexml projects: every referenced definition renamed (suffix / lower case) or removed, one at a time; real parser + converter", |all| all.to_vec());
    }

    /// every place where a defined name is written as a reference: (byte offset of the name, name, kind of the block
    /// the reference is written in, attribute it is written under)
    fn reference_sites(text: &str) -> Vec<(usize, String, String, String)> {
        let defs = definitions(text);
        let names: std::collections::BTreeSet<&str> = defs.iter().map(|d| d.1.as_str()).collect();
        let def_at: std::collections::BTreeSet<usize> = defs.iter().map(|d| d.0).collect();
        let mut out = vec![];
        let (mut off, mut block, mut key, mut next_def) = (0usize, String::new(), String::new(), 0usize);
        for line in text.split_inclusive('\n') {
            let t = line.trim();
            if t.starts_with('<') || t == ".." {
                key.clear();
                if t.starts_with('<') {
                    block.clear();
                }
            }
            while next_def < defs.len() && defs[next_def].0 < off {
                next_def += 1;
            }
            if next_def < defs.len() && defs[next_def].0 < off + line.len() {
                block = defs[next_def].2.clone();
                key.clear();
            } else if let Some((k, _)) = t.split_once('=') {
                let k = k.trim();
                if !k.is_empty() && !k.contains('"') && !k.contains('(') {
                    key = k.to_string();
                }
            }
            // quoted names of this line
            let mut from = 0;
            while let Some(a) = line[from..].find('"') {
                let start = from + a + 1;
                let Some(len) = line[start..].find('"') else { break };
                let name = &line[start..start + len];
                if names.contains(name) && !def_at.contains(&(off + start)) && !block.is_empty() && !key.is_empty() {
                    out.push((off + start, name.to_string(), block.clone(), key.clone()));
                }
                from = start + len + 1;
            }
            off += line.len();
        }
        out
    }

    // the attributes under which the links listed by the property are written (wall -> construction / adjacent space,
    // construction -> layers, layers -> material, window -> window construction, window construction -> glazing /
    // frame, space -> loads / thermostat, loads / thermostat -> yearly schedule, yearly -> weekly -> daily schedule)
    const LINK_KEYS: [(&str, &str); 19] = [
        ("EXTERIOR-WALL", "CONSTRUCTION"), ("INTERIOR-WALL", "CONSTRUCTION"), ("UNDERGROUND-WALL", "CONSTRUCTION"), ("ROOF", "CONSTRUCTION"),
        ("INTERIOR-WALL", "NEXT-TO"), ("CONSTRUCTION", "LAYERS"), ("LAYERS", "MATERIAL"), ("WINDOW", "GAP"),
        ("GAP", "GLASS-TYPE"), ("GAP", "NAME-FRAME"), ("SPACE", "SPACE-CONDITIONS"), ("SPACE", "SYSTEM-CONDITIONS"),
        ("SPACE-CONDITIONS", "PEOPLE-SCHEDULE"), ("SPACE-CONDITIONS", "EQUIP-SCHEDULE"), ("SPACE-CONDITIONS", "LIGHTING-SCHEDULE"),
        ("SYSTEM-CONDITIONS", "COOL-TEMP-SCH"), ("SYSTEM-CONDITIONS", "HEAT-TEMP-SCH"), ("WEEK-SCHEDULE-PD", "DAY-SCHEDULES"),
        ("SCHEDULE-PD", "WEEK-SCHEDULES"),
    ];

    /// the kind of definition a link attribute names
    fn expected_kind(key: &str) -> &'static str {
        match key {
            "CONSTRUCTION" => "CONSTRUCTION",
            "NEXT-TO" => "SPACE",
            "LAYERS" => "LAYERS",
            "MATERIAL" => "MATERIAL",
            "GAP" => "GAP",
            "GLASS-TYPE" => "GLASS-TYPE",
            "NAME-FRAME" => "NAME-FRAME",
            "SPACE-CONDITIONS" => "SPACE-CONDITIONS",
            "SYSTEM-CONDITIONS" => "SYSTEM-CONDITIONS",
            "WEEK-SCHEDULES" => "WEEK-SCHEDULE-PD",
            "DAY-SCHEDULES" => "DAY-SCHEDULE-PD",
            _ => "SCHEDULE-PD",
        }
    }

    // every project obtained from a shipped one by breaking ONE written reference (the definition stays, one place that
    // names it now names nothing): rejected; a model is acceptable only when the block that holds the reference is not
    // part of the model (an unused library entry), and then it is closed and has lost no link
    #[test]
    fn n_c02_broken_sites() {
        struct Project {
            fname: String,
            text: String,
            base_json: Option<String>,
            base_links: usize,
            // (offset, referenced name, block kind, key, name of the block that holds the reference, is that block
            // part of the model: an element of that name, or - for a CONSTRUCTION, which the model does not keep by
            // name - a wall of the model that uses it)
            sites: Vec<(usize, String, String, String, String, bool)>,
            defs: Vec<(usize, String, String)>,
        }
        let catalogue = hulc::ctehexml::load_lider_catalog().expect("LIDER catalogue");
        // the shipped projects, and three of them rewritten as projects WITHOUT thermostats / WITHOUT loads (every
        // SYSTEM-CONDITIONS / SPACE-CONDITIONS block and every reference to one removed - as legacy LIDER projects are)
        fn without_kind(text: &str, kind: &str) -> String {
            let mut out = String::with_capacity(text.len());
            let mut skipping = false;
            for line in text.split_inclusive('\n') {
                let t = line.trim();
                if skipping {
                    if t == ".." {
                        skipping = false;
                    }
                    continue;
                }
                if t.starts_with('"') && t.ends_with(&format!("= {}", kind)) {
                    skipping = true;
                    continue;
                }
                if t.split_once('=').map(|(k, _)| k.trim() == kind).unwrap_or(false) {
                    continue;
                }
                out.push_str(line);
            }
            out
        }
        let mut sources: Vec<(String, String)> = project_files().iter().map(|f| (f.file_name().unwrap().to_string_lossy().to_string(), std::fs::read_to_string(f).unwrap())).collect();
        for base in ["cubo.ctehexml", "casoa.ctehexml", "e4h_medianeras.ctehexml"] {
            if let Some((n, t)) = sources.iter().find(|s| s.0 == base).cloned() {
                sources.push((format!("{} without thermostats", n), without_kind(&t, "SYSTEM-CONDITIONS")));
                sources.push((format!("{} without loads", n), without_kind(&t, "SPACE-CONDITIONS")));
            }
        }
        let n_sources = sources.len();
        let projects: Vec<Project> = sources
            .iter()
            .map(|(fname, text)| {
                let text = text.clone();
                let (base_json, base_links, base) = match convert_text(text.clone()) {
                    Outcome::Model(m) => (m.as_json().ok(), optional_links(&m), Some(m)),
                    _ => (None, usize::MAX, None),
                };
                let defs = definitions(&text);
                let all = reference_sites(&text);
                let mut groups: std::collections::BTreeMap<(String, String), Vec<usize>> = Default::default();
                for (i, s) in all.iter().enumerate() {
                    if LINK_KEYS.iter().any(|(b, k)| *b == s.2 && *k == s.3) {
                        groups.entry((s.2.clone(), s.3.clone())).or_default().push(i);
                    }
                }
                let holder_of = |at: usize| defs[..defs.partition_point(|d| d.0 < at)].last().map(|d| d.1.clone()).unwrap_or_default();
                let in_model = |n: &str| base_json.as_ref().map(|j| j.contains(&format!("\"{}\"", n))).unwrap_or(false);
                let mut sites = vec![];
                for idx in groups.values() {
                    for &i in idx {
                        let (at, name, block, key) = all[i].clone();
                        let holder = holder_of(at);
                        // HULC writes a construction again after every wall that uses it: the last definition counts
                        let last_def = defs.iter().filter(|d| d.1 == holder && d.2 == block).last().map(|d| d.0 < at && holder_of(at) == holder && defs[..defs.partition_point(|x| x.0 < at)].last().map(|x| x.0) == Some(d.0)).unwrap_or(false);
                        // the links that a model may lack count where the intact model has them
                        let link_present = match (base.as_ref(), block.as_str(), key.as_str()) {
                            (Some(m), "SPACE", "SPACE-CONDITIONS") => m.spaces.iter().any(|s| s.name == holder && s.loads.is_some()),
                            (Some(m), "SPACE", "SYSTEM-CONDITIONS") => m.spaces.iter().any(|s| s.name == holder && s.thermostat.is_some()),
                            (Some(m), "INTERIOR-WALL", "NEXT-TO") => m.walls.iter().any(|w| w.name == holder && w.next_to.is_some()),
                            (Some(m), "SPACE-CONDITIONS", "PEOPLE-SCHEDULE") => m.loads.iter().any(|l| l.name == holder && l.people_schedule.is_some()),
                            (Some(m), "SPACE-CONDITIONS", "EQUIP-SCHEDULE") => m.loads.iter().any(|l| l.name == holder && l.equipment_schedule.is_some()),
                            (Some(m), "SPACE-CONDITIONS", "LIGHTING-SCHEDULE") => m.loads.iter().any(|l| l.name == holder && l.lighting_schedule.is_some()),
                            (Some(m), "SYSTEM-CONDITIONS", "COOL-TEMP-SCH") => m.thermostats.iter().any(|t| t.name == holder && t.temp_max.is_some()),
                            (Some(m), "SYSTEM-CONDITIONS", "HEAT-TEMP-SCH") => m.thermostats.iter().any(|t| t.name == holder && t.temp_min.is_some()),
                            (Some(_), _, _) => true,
                            (None, _, _) => false,
                        };
                        // parse_with_catalog lets the LIDER catalogue's entry of the same name replace the project's
                        let from_catalogue = match block.as_str() {
                            "GAP" => catalogue.wincons.contains_key(&holder),
                            "LAYERS" => catalogue.wallcons.contains_key(&holder),
                            _ => false,
                        };
                        let used = last_def && link_present && !from_catalogue && (in_model(&holder) || (block == "CONSTRUCTION" && all.iter().any(|r| r.1 == holder && r.3 == "CONSTRUCTION" && in_model(&holder_of(r.0)))));
                        sites.push((at, name, block, key, holder, used));
                    }
                }
                Project { fname: fname.clone(), text, base_json, base_links, sites, defs }
            })
            .collect();
        drive("C02.broken_sites", "all 12 shipped .ctehexml projects, and three of them rewritten without thermostats / without loads (blocks and references removed, as legacy projects are): ONE place where a link of the property's list is written (wall -> construction / adjacent space, construction -> layers, layers -> material, window -> window construction, window construction -> glazing / frame, space -> loads / thermostat, loads / thermostat -> yearly schedule, yearly -> weekly -> daily schedule) renamed to a name that is not defined, or - for the links to loads, thermostats and schedules - to the name of an element of another of these kinds (a schedule of another level, loads, a thermostat); every such place (4 300), one at a time, each way", |c| {
            c.check("C02.broken_sites.corpus", n_sources >= 18 && projects.len() >= 18 && projects.iter().all(|p| p.sites.len() >= 15) && projects.iter().filter(|p| p.fname.contains(" without ")).all(|p| !p.text.contains(if p.fname.ends_with("thermostats") { "= SYSTEM-CONDITIONS" } else { "= SPACE-CONDITIONS" })), || format!("reference places not found: {:?}", projects.iter().map(|p| p.sites.len()).collect::<Vec<_>>()));
            let k = c.pick(projects.len());
            let p = &projects[k];
            c.check("C02.broken.base_converts", p.base_json.is_some(), || format!("{} itself does not convert", p.fname));
            let Some(base_json) = p.base_json.as_ref() else { return };
            let s = c.pick(p.sites.len());
            // the place now names nothing at all, or an element of ANOTHER kind (a daily schedule where a weekly one is
            // expected ...): no definition of the expected kind carries that name either way
            const STAND_INS: [&str; 5] = ["DAY-SCHEDULE-PD", "WEEK-SCHEDULE-PD", "SCHEDULE-PD", "SPACE-CONDITIONS", "SYSTEM-CONDITIONS"];
            let edit = c.pick(1 + STAND_INS.len());
            let other_kind = edit > 0;
            let (at, name, block, key, holder, used) = &p.sites[s];
            let mut t = p.text.clone();
            let what = if other_kind {
                let want = expected_kind(key);
                // (for links to constructions, materials ... a schedule's name is just another undefined name)
                if !STAND_INS.contains(&want) {
                    return;
                }
                let kind = STAND_INS[edit - 1];
                let stand_in = p.defs.iter().find(|d| d.2 == kind && d.2 != want && !p.defs.iter().any(|e| e.2 == want && e.1 == d.1));
                let Some(stand_in) = stand_in else { return };
                t.replace_range(*at..at + name.len(), &stand_in.1);
                format!("{}: {} \"{}\".{} = \"{}\" now names the {} \"{}\"", p.fname, block, holder, key, name, stand_in.2, stand_in.1)
            } else {
                t.insert_str(at + name.len(), "_gone");
                format!("{}: {} \"{}\".{} = \"{}\" renamed", p.fname, block, holder, key, name)
            };
            c.note(what.clone());
            match convert_text(t) {
                Outcome::Model(m) => {
                    judge_model(c, &what, &m);
                    let links = optional_links(&m);
                    c.check("C02.broken.no_missing_links", links >= p.base_links, || format!("{}: converted to a model with {} optional links, the intact project has {}", what, links, p.base_links));
                    c.check("C02.broken_sites.rejected", !*used, || format!("{}: the block is part of the model, yet the project converts ({})", what, if m.as_json().ok().as_ref() == Some(base_json) { "to the same model as the intact project: the written reference is not read" } else { "to another model" }));
                    c.nontrivial(format!("{} {} still converts", block, key));
                    c.sample(|| format!("{} -> still a closed model (unused library entry)", what));
                }
                Outcome::Rejected(e) => {
                    c.check("C02.broken.rejected", !e.is_empty(), || "empty error".to_string());
                    c.nontrivial(format!("{} {} {}", block, key, e.chars().take(40).collect::<String>()));
                    c.sample(|| format!("{} -> error: {}", what, e.chars().take(90).collect::<String>()));
                }
                Outcome::Crashed(msg) => c.check("C02.rejects_with_error", false, || format!("{}: conversion panicked instead of returning an error: {}", what, msg.chars().take(200).collect::<String>())),
                Outcome::Hung => {
                    c.check("C02.rejects_with_error", false, || format!("{}: no answer in 60 s", what));
                    c.stop();
                }
            }
        });
    }

    // names are case-sensitive: a project in which every second wall uses a construction whose name differs from its
    // neighbours' only in letter case (HULC repeats the CONSTRUCTION block after each wall; the copy is renamed with it) is
    // a valid project with one more construction - converted models stay closed, ids unique per collection
    #[test]
    fn n_c02_case_twins() {
        let projects: Vec<(String, String)> = project_files().iter().map(|f| (f.file_name().unwrap().to_string_lossy().to_string(), std::fs::read_to_string(f).unwrap())).collect();
        drive("C02.case_twins", "the 12 shipped projects with every second use of the most used wall construction (and of the most used window construction) written in upper case, together with the copy of its definition that follows the element: two constructions whose names differ only in case, used alternately", |c| {
            let k = c.pick(projects.len());
            let (fname, text) = &projects[k];
            let sites = reference_sites(text);
            let mut edited = text.clone();
            let mut renamed = 0usize;
            for key in ["CONSTRUCTION", "GAP"] {
                let wall_sites: Vec<&(usize, String, String, String)> = sites.iter().filter(|r| r.3 == key && r.2 != "CONSTRUCTION" && r.1.to_uppercase() != r.1).collect();
                let mut count: std::collections::BTreeMap<&str, usize> = Default::default();
                for r in &wall_sites {
                    *count.entry(r.1.as_str()).or_default() += 1;
                }
                let Some((name, _)) = count.iter().filter(|(n, k)| **k >= 3 && !text.contains(&format!("\"{}\"", n.to_uppercase()))).max_by_key(|(_, k)| **k) else { continue };
                let upper = name.to_uppercase();
                // every second use, from the last to the first so that offsets stay valid; the definition copy that follows
                // the element within the next 12 lines is renamed too
                let uses: Vec<usize> = wall_sites.iter().filter(|r| r.1 == *name).map(|r| r.0).collect();
                for (i, at) in uses.iter().enumerate().rev() {
                    if i % 2 == 1 {
                        let tail_end = edited[*at..].split_inclusive('\n').take(12).map(|l| l.len()).sum::<usize>() + *at;
                        let def = format!("\"{}\" =", name);
                        if let Some(d) = edited[*at + name.len()..tail_end.min(edited.len())].find(&def) {
                            let dpos = *at + name.len() + d + 1;
                            edited.replace_range(dpos..dpos + name.len(), &upper);
                        } else if key == "CONSTRUCTION" {
                            continue; // no definition copy follows this use: leave it alone
                        }
                        edited.replace_range(*at..*at + name.len(), &upper);
                        renamed += 1;
                    }
                }
                if key == "GAP" && renamed > 0 {
                    // window constructions are defined once, in the library part: add the upper-case twin next to the original
                    if let Some(d) = definitions(text).iter().find(|d| d.1 == *name && d.2 == "GAP") {
                        let start = text[..d.0].rfind('\n').map(|i| i + 1).unwrap_or(0);
                        let mut end = start;
                        for line in text[start..].split_inclusive('\n') {
                            end += line.len();
                            if line.trim_end().ends_with("..") {
                                break;
                            }
                        }
                        let twin = text[start..end].replace(&format!("\"{}\"", name), &format!("\"{}\"", upper));
                        edited.insert_str(start, &twin);
                    }
                }
            }
            c.note(format!("{}: {} uses renamed to upper case", fname, renamed));
            if renamed == 0 {
                return;
            }
            match convert_text(edited) {
                Outcome::Model(m) => {
                    judge_model(c, &format!("{} with case twins", fname), &m);
                    c.nontrivial(fname.clone());
                    c.sample(|| format!("{}: {} uses in upper case: {} wall constructions, {} window constructions, closed", fname, renamed, m.cons.wallcons.len(), m.cons.wincons.len()));
                }
                Outcome::Rejected(e) => c.check("C02.case_twins.converts", false, || format!("{} with case twins is rejected: {}", fname, e.chars().take(200).collect::<String>())),
                Outcome::Crashed(msg) => c.check("C02.rejects_with_error", false, || format!("{} with case twins: conversion panicked: {}", fname, msg.chars().take(200).collect::<String>())),
                Outcome::Hung => {
                    c.check("C02.rejects_with_error", false, || format!("{} with case twins: no answer in 60 s", fname));
                    c.stop();
                }
            }
        });
    }

    // every project obtained from a shipped one by writing another value for one number: still closed, or an error
    #[test]
    fn n_c02_value_edits() {
        let projects: Vec<(String, String)> = project_files().iter().map(|f| (f.file_name().unwrap().to_string_lossy().to_string(), std::fs::read_to_string(f).unwrap())).collect();
        let thorough = std::env::var("VERIF_TIER").map(|t| t == "thorough").unwrap_or(false);
        let seed: usize = std::env::var("VERIF_SEED").ok().and_then(|s| s.parse().ok()).unwrap_or(0);
        let step = if thorough { 1 } else { 6 };
        let mut slice: Vec<(usize, usize)> = vec![];
        for (fi, (_, text)) in projects.iter().enumerate() {
            let n = text.split_inclusive('\n').count();
            let mut l = (seed + fi) % step;
            while l < n {
                slice.push((fi, l));
                l += step;
            }
        }
        const VALUE_KINDS: [usize; 5] = [5, 8, 9, 10, 4];
        drive("C02.value_edits", "the 12 shipped .ctehexml projects with the first number of one line replaced by -7 / 0 / 100 / 1 / 1e39 (every 6th line quick, offset by VERIF_SEED; every line thorough): the converted model is closed (own oracle + model checker), or conversion returns an error", |c| {
            let k = c.pick(slice.len());
            let kind = VALUE_KINDS[c.pick(VALUE_KINDS.len())];
            let (fi, line) = slice[k];
            let (fname, text) = &projects[fi];
            let edited = match damage(text, line, kind) {
                Some(t) => t,
                None => return,
            };
            c.note(format!("{} line {}: {}", fname, line + 1, DAMAGE_KINDS[kind]));
            match convert_text(edited) {
                Outcome::Model(m) => {
                    judge_model(c, &format!("{} with line {} {}", fname, line + 1, DAMAGE_KINDS[kind]), &m);
                    c.nontrivial(format!("{} converted", DAMAGE_KINDS[kind]));
                }
                Outcome::Rejected(e) => {
                    c.check("C02.value_edits.rejected", !e.is_empty(), || "empty error".to_string());
                    c.nontrivial(format!("{} rejected", DAMAGE_KINDS[kind]));
                    c.sample(|| format!("{} line {} {}: error: {}", fname, line + 1, DAMAGE_KINDS[kind], e.chars().take(80).collect::<String>()));
                }
                Outcome::Crashed(msg) => c.check("C02.rejects_with_error", false, || format!("{} with line {} {}: conversion panicked: {}", fname, line + 1, DAMAGE_KINDS[kind], msg.chars().take(200).collect::<String>())),
                Outcome::Hung => {
                    c.check("C02.rejects_with_error", false, || format!("{} with line {} {}: no answer in 60 s", fname, line + 1, DAMAGE_KINDS[kind]));
                    c.stop();
                }
            }
        });
    }

    // ---- C05: export and indicators are deterministic, reproducible and history-independent ----------------------
    fn fnv(text: &str) -> String {
        let mut h: u64 = 0xcbf29ce484222325;
        for b in text.bytes() {
            h ^= b as u64;
            h = h.wrapping_mul(0x100000001b3);
        }
        format!("{:016x}:{}", h, text.len())
    }

    fn project_files() -> Vec<PathBuf> {
        let mut v = vec![];
        files_with_ext(&tests_root(), "ctehexml", &mut v);
        v
    }

    fn convert_to_json(text: &str) -> Result<String, String> {
        let d = hulc::ctehexml::parse_with_catalog(text).map_err(|e| e.to_string())?;
        let m = Model::try_from(&d).map_err(|e| e.to_string())?;
        m.as_json().map_err(|e| e.to_string())
    }

    const CHILD_ENV: &str = "VERIF_C05_CHILD_OUT";

    #[test]
    fn n_c05_convert_repeat() {
        let files = project_files();
        // fresh-process mode: this same test, started by the parent below, writes one digest per project and leaves
        if let Ok(out) = std::env::var(CHILD_ENV) {
            let mut lines = String::new();
            for f in &files {
                let t = std::fs::read_to_string(f).unwrap();
                lines.push_str(&format!("{}\n", convert_to_json(&t).map(|j| fnv(&j)).unwrap_or_else(|e| format!("ERR {}", e))));
            }
            std::fs::write(out, lines).unwrap();
            return;
        }
        let texts: Vec<(String, String)> = files.iter().map(|f| (f.file_name().unwrap().to_string_lossy().to_string(), std::fs::read_to_string(f).unwrap())).collect();
        // one fresh process for the whole corpus
        let child_out = std::env::temp_dir().join(format!("verif-c05-{}.txt", std::process::id()));
        let status = std::process::Command::new(std::env::current_exe().unwrap())
            .args(["--exact", "convert::from_ctehexml::verif_convert::n::n_c05_convert_repeat", "--test-threads", "1"])
            .env(CHILD_ENV, &child_out)
            .env_remove("VERIF_OUT")
            .stdout(std::process::Stdio::null())
            .stderr(std::process::Stdio::null())
            .status();
        let fresh: Vec<String> = std::fs::read_to_string(&child_out).unwrap_or_default().lines().map(|l| l.to_string()).collect();
        let _ = std::fs::remove_file(&child_out);
        let fresh_ok = status.map(|s| s.success()).unwrap_or(false) && fresh.len() == texts.len();
        drive("C05.convert", "all 12 shipped .ctehexml projects: converted twice in this process, once in a fresh process, and on 16 threads at once (8 on the same project, 8 on the next one): byte-identical JSON", |c| {
            c.check("C05.convert.corpus", texts.len() >= 12, || format!("{} projects found", texts.len()));
            c.check("C05.convert.fresh_process_ran", fresh_ok, || format!("child process gave {} digests for {} projects", fresh.len(), texts.len()));
            let k = c.pick(texts.len());
            let (name, text) = &texts[k];
            c.note(name.clone());
            let first = match convert_to_json(text) {
                Ok(j) => j,
                Err(e) => {
                    c.sample(|| format!("{}: not convertible: {}", name, e));
                    return;
                }
            };
            let second = convert_to_json(text).unwrap_or_default();
            c.check("C05.convert.same_process", first == second, || format!("{}: second conversion in the same process differs", name));
            if fresh_ok {
                c.check("C05.convert.fresh_process", fresh[k] == fnv(&first), || format!("{}: a fresh process produced different JSON ({} vs {})", name, fresh[k], fnv(&first)));
            }
            let other = &texts[(k + 1) % texts.len()].1;
            let other_first = convert_to_json(other).ok();
            let results: Vec<(bool, Option<String>)> = std::thread::scope(|sc| {
                let hs: Vec<_> = (0..16)
                    .map(|i| {
                        let (t, mine) = if i % 2 == 0 { (text.as_str(), true) } else { (other.as_str(), false) };
                        sc.spawn(move || (mine, convert_to_json(t).ok()))
                    })
                    .collect();
                hs.into_iter().map(|h| h.join().unwrap_or((true, None))).collect()
            });
            let bad = results.iter().filter(|(mine, j)| if *mine { j.as_deref() != Some(first.as_str()) } else { *j != other_first }).count();
            c.check("C05.convert.concurrent", bad == 0, || format!("{}: {} of 16 concurrent conversions differ from the sequential result", name, bad));
            c.nontrivial(name.clone());
            c.sample(|| format!("{}: {} bytes, digest {}", name, first.len(), fnv(&first)));
        });
    }

    /// (collection, name) -> id of every element of a model
    fn id_table(m: &Model) -> Vec<(String, String, Uuid)> {
        let mut v: Vec<(String, String, Uuid)> = vec![];
        macro_rules! add {
            ($coll:expr, $what:expr) => {
                for x in $coll.iter() {
                    v.push(($what.to_string(), x.name.clone(), x.id));
                }
            };
        }
        add!(m.spaces, "space");
        add!(m.walls, "wall");
        add!(m.windows, "window");
        add!(m.shades, "shade");
        add!(m.thermal_bridges, "thermal_bridge");
        add!(m.cons.wallcons, "wallcons");
        add!(m.cons.wincons, "wincons");
        add!(m.cons.materials, "material");
        add!(m.cons.glasses, "glass");
        add!(m.cons.frames, "frame");
        add!(m.loads, "loads");
        add!(m.thermostats, "thermostat");
        add!(m.schedules.year, "schedule.year");
        add!(m.schedules.week, "schedule.week");
        add!(m.schedules.day, "schedule.day");
        v
    }

    const LIBRARY_KINDS: [&str; 14] = ["MATERIAL", "LAYERS", "CONSTRUCTION", "GLASS-TYPE", "NAME-FRAME", "GAP", "DAY-SCHEDULE-PD", "WEEK-SCHEDULE-PD", "SCHEDULE-PD", "SPACE-CONDITIONS", "SYSTEM-CONDITIONS", "BUILDING-SHADE", "THERMAL-BRIDGE", "POLYGON"];

    /// The project with solar protections on every window (shipped projects hardly have any): the attribute lines go
    /// right before the `..` of each WINDOW block, where they override earlier values of the same key
    fn with_window_protections(text: &str, v: usize) -> String {
        let extra: &[&str] = match v {
            1 => &["RIGHT-FIN-D = 0.5", "RIGHT-FIN-H = 1.2"],
            2 => &["LEFT-FIN-D = 0.4", "LEFT-FIN-H = 1.1"],
            3 => &["OVERHANG-D = 0.6", "OVERHANG-W = 1.5"],
            4 => &["RIGHT-FIN-D = 0.5", "RIGHT-FIN-H = 1.2", "LEFT-FIN-D = 0.4", "LEFT-FIN-H = 1.1", "OVERHANG-D = 0.6", "OVERHANG-W = 1.5"],
            // sizes used by the geometry oracle of C03 (overhang perpendicular to the wall)
            6 => &["OVERHANG-A = 0.3", "OVERHANG-B = 0.2", "OVERHANG-D = 0.6", "OVERHANG-W = 2.4", "OVERHANG-ANGLE = 90", "LEFT-FIN-A = 0.15", "LEFT-FIN-B = 0.1", "LEFT-FIN-D = 0.5", "LEFT-FIN-H = 1.1", "RIGHT-FIN-A = 0.25", "RIGHT-FIN-B = 0.05", "RIGHT-FIN-D = 0.4", "RIGHT-FIN-H = 1.0"],
            // the usual symmetric case: both fins with the same sizes
            5 => &["RIGHT-FIN-A = 0.1", "RIGHT-FIN-B = 0.2", "RIGHT-FIN-D = 0.5", "RIGHT-FIN-H = 1.2", "LEFT-FIN-A = 0.1", "LEFT-FIN-B = 0.2", "LEFT-FIN-D = 0.5", "LEFT-FIN-H = 1.2", "OVERHANG-D = 0.5", "OVERHANG-W = 1.2"],
            _ => return text.to_string(),
        };
        let mut out = String::with_capacity(text.len() + 1024);
        let mut in_window = false;
        for line in text.split_inclusive('\n') {
            let t = line.trim();
            if t.starts_with('"') && t.ends_with("= WINDOW") {
                in_window = true;
            } else if in_window && t == ".." {
                for e in extra {
                    out.push_str("         ");
                    out.push_str(e);
                    out.push('\n');
                }
                in_window = false;
            }
            out.push_str(line);
        }
        out
    }

    // ... and the same for projects with a degenerate element: in the first block of every kind, each written number set
    // to 0 / 1, one at a time (a shade of zero height, a window of zero width, a schedule value of 0 ...)
    #[test]
    fn n_c05_degenerate_repeat() {
        let files = project_files();
        // (project, line) of every numeric attribute line inside the first block of each kind
        let mut cases: Vec<(usize, usize)> = vec![];
        let texts: Vec<(String, String)> = files.iter().map(|f| (f.file_name().unwrap().to_string_lossy().to_string(), std::fs::read_to_string(f).unwrap())).collect();
        for (fi, (_, text)) in texts.iter().enumerate() {
            let defs = definitions(text);
            let mut seen = std::collections::BTreeSet::new();
            let line_of = |off: usize| text[..off].matches('\n').count();
            let lines: Vec<&str> = text.split_inclusive('\n').collect();
            for d in &defs {
                if !seen.insert(d.2.clone()) {
                    continue;
                }
                let mut l = line_of(d.0) + 1;
                while l < lines.len() && lines[l].trim() != ".." && l < line_of(d.0) + 60 {
                    if lines[l].contains('=') && damage(text, l, 8).is_some() {
                        cases.push((fi, l));
                    }
                    l += 1;
                }
            }
        }
        drive("C05.degenerate", "the 12 shipped projects with ONE number of the first block of every kind (windows, shades, walls, spaces, materials, schedules ...) set to 0 or to 1: whenever the project still converts, a second conversion in the same process and one on another thread give byte-identical JSON", |c| {
            c.check("C05.degenerate.corpus", cases.len() >= 1000, || format!("{} attribute lines found", cases.len()));
            let k = c.pick(cases.len());
            let kind = c.of(&[8usize, 10]);
            let (fi, line) = cases[k];
            let (name, text) = &texts[fi];
            let edited = match damage(text, line, kind) {
                Some(t) => t,
                None => return,
            };
            c.note(format!("{} line {} ({}): {}", name, line + 1, text.split_inclusive('\n').nth(line).unwrap_or("").trim(), DAMAGE_KINDS[kind]));
            let first = match convert_to_json(&edited) {
                Ok(j) => j,
                Err(_) => return,
            };
            let second = convert_to_json(&edited).unwrap_or_default();
            c.check("C05.convert.same_process", first == second, || format!("{} with line {} {}: the second conversion in the same process differs", name, line + 1, DAMAGE_KINDS[kind]));
            let third = std::thread::scope(|sc| sc.spawn(|| convert_to_json(&edited).unwrap_or_default()).join().unwrap_or_default());
            c.check("C05.convert.threads", first == third, || format!("{} with line {} {}: a conversion on another thread differs", name, line + 1, DAMAGE_KINDS[kind]));
            c.nontrivial(format!("{} {}", name, line));
        });
    }

    const TWIN_KINDS: [&str; 15] = ["MATERIAL", "LAYERS", "CONSTRUCTION", "GLASS-TYPE", "NAME-FRAME", "GAP", "DAY-SCHEDULE-PD", "WEEK-SCHEDULE-PD", "SCHEDULE-PD", "SPACE-CONDITIONS", "SYSTEM-CONDITIONS", "BUILDING-SHADE", "THERMAL-BRIDGE", "POLYGON", "WINDOW"];

    #[test]
    fn n_c05_ids_local() {
        let files = project_files();
        drive("C05.ids", "all 12 shipped projects, as shipped and with right fins / left fins / overhangs / all three on every window, x 15 block kinds (14 library kinds and WINDOW): a copy of the first / middle / last block of the kind - exact, or with all its scalar numbers changed - is added under a new name right before the original (an unrelated definition; a twin window also gets an overhang); every element of the original model keeps its id", |c| {
            let k = c.pick(files.len());
            let protections = c.pick(5);
            let kind = c.of(&TWIN_KINDS);
            let which = c.pick(3);
            // the added definition is an exact copy under a new name, or a copy whose numbers all differ (another
            // thickness, absorptance, schedule value ...): unrelated either way
            let other_numbers = c.flag();
            let fname = files[k].file_name().unwrap().to_string_lossy().to_string();
            let text = with_window_protections(&std::fs::read_to_string(&files[k]).unwrap(), protections);
            let defs = definitions(&text);
            let of_kind: Vec<&(usize, String, String)> = defs.iter().filter(|d| d.2 == kind).collect();
            if of_kind.is_empty() || (which > 0 && of_kind.len() == 1) {
                return;
            }
            let (at, name, _) = of_kind[[0, of_kind.len() / 2, of_kind.len() - 1][which]];
            c.note(format!("{} (window protections {}): twin of {} \"{}\"{}", fname, protections, kind, name, if other_numbers { " with other numbers" } else { "" }));
            let start = text[..*at].rfind('\n').map(|i| i + 1).unwrap_or(0);
            let mut end = start;
            let mut last_line_start = start;
            for line in text[start..].split_inclusive('\n') {
                last_line_start = end;
                end += line.len();
                if line.trim_end().ends_with("..") {
                    break;
                }
            }
            let mut twin = text[start..last_line_start].replacen(&format!("\"{}\"", name), &format!("\"{}_twin\"", name), 1);
            if other_numbers && kind != "WINDOW" && kind != "POLYGON" {
                // every scalar number of the copy: v -> 1.5 v + 0.25 (lists and names stay)
                twin = twin
                    .split_inclusive('\n')
                    .enumerate()
                    .map(|(i, line)| {
                        let body = line.trim_end_matches(&['\r', '\n'][..]);
                        let eol = &line[body.len()..];
                        match (i, body.split_once('=')) {
                            (i, Some((k, v))) if i > 0 => match v.trim().parse::<f32>() {
                                Ok(x) if x.is_finite() && v.contains('.') => format!("{}= {}{}", k, x * 1.5 + 0.25, eol),
                                _ => line.to_string(),
                            },
                            _ => line.to_string(),
                        }
                    })
                    .collect();
            }
            if kind == "WINDOW" {
                twin.push_str("         OVERHANG-D = 0.8\n         OVERHANG-W = 2\n");
            }
            twin.push_str(&text[last_line_start..end]);
            let mut t = text.clone();
            t.insert_str(start, &twin);
            let base = match hulc::ctehexml::parse_with_catalog(&text).map_err(|e| e.to_string()).and_then(|d| Model::try_from(&d).map_err(|e| e.to_string())) {
                Ok(m) => m,
                Err(_) => return,
            };
            let edited = match hulc::ctehexml::parse_with_catalog(&t).map_err(|e| e.to_string()).and_then(|d| Model::try_from(&d).map_err(|e| e.to_string())) {
                Ok(m) => m,
                Err(e) => {
                    c.sample(|| format!("{}: twin of {} \"{}\" rejected: {}", fname, kind, name, e));
                    return;
                }
            };
            let (a, b) = (id_table(&base), id_table(&edited));
            c.check("C05.ids.protections_present", protections == 0 || base.windows.is_empty() || base.shades.iter().any(|s| s.name.ends_with("_fin") || s.name.ends_with("_overhang")), || format!("{}: no fin / overhang shade was generated for protections {}: {:?}", fname, protections, base.shades.iter().map(|s| s.name.clone()).take(5).collect::<Vec<_>>()));
            let moved: Vec<String> = a.iter().filter(|(coll, n, id)| !b.iter().any(|(c2, n2, id2)| c2 == coll && n2 == n && id2 == id)).map(|(coll, n, _)| format!("{} {}", coll, n)).collect();
            c.check("C05.ids.local", moved.is_empty(), || format!("{} (window protections {}): adding an unrelated {} changed the id of (or lost) {} elements, e.g. {:?}", fname, protections, kind, moved.len(), &moved[..moved.len().min(3)]));
            c.nontrivial(format!("{} {} {} {}", fname, kind, protections, other_numbers));
            c.sample(|| format!("{}: twin of {} \"{}\": {} -> {} elements", fname, kind, name, a.len(), b.len()));
        });
    }

    // element kinds keep their names apart (a yearly, a weekly and a daily schedule, or a material and a layer set,
    // may carry the same name: shipped projects already name a CONSTRUCTION and its LAYERS alike): a definition of one
    // kind under the name of an element of another kind is an unrelated definition too
    const NAMESAKE_KINDS: [&str; 10] = ["MATERIAL", "LAYERS", "GLASS-TYPE", "NAME-FRAME", "GAP", "DAY-SCHEDULE-PD", "WEEK-SCHEDULE-PD", "SCHEDULE-PD", "SPACE-CONDITIONS", "SYSTEM-CONDITIONS"];

    #[test]
    fn n_c05_ids_namesake() {
        let files = project_files();
        let projects: Vec<(String, String, Vec<(usize, String, String)>, Option<Model>)> = files
            .iter()
            .map(|f| {
                let text = std::fs::read_to_string(f).unwrap();
                let defs = definitions(&text);
                let base = hulc::ctehexml::parse_with_catalog(&text).ok().and_then(|d| Model::try_from(&d).ok());
                (f.file_name().unwrap().to_string_lossy().to_string(), text, defs, base)
            })
            .collect();
        // [start, end) of the block whose name is written at `at`
        fn extent(text: &str, at: usize) -> (usize, usize) {
            let start = text[..at].rfind('\n').map(|i| i + 1).unwrap_or(0);
            let mut end = start;
            for line in text[start..].split_inclusive('\n') {
                end += line.len();
                if line.trim_end().ends_with("..") {
                    break;
                }
            }
            (start, end)
        }
        drive("C05.namesake", "all 12 shipped projects x ordered pairs of 10 library kinds (material, layer set, glazing, frame, window construction, daily / weekly / yearly schedule, loads, thermostat): a copy of the first block of one kind is added under the NAME of the first / last element of the other kind, right before or right after that element's block; every element of the original model keeps its id, and no two elements of the new model share an id", |c| {
            let k = c.pick(projects.len());
            let a_kind = c.of(&NAMESAKE_KINDS);
            let b_kind = c.of(&NAMESAKE_KINDS);
            let which_b = c.pick(2);
            let after = c.flag();
            if a_kind == b_kind {
                return;
            }
            let (fname, text, defs, base) = &projects[k];
            let Some(base) = base.as_ref() else { return };
            let Some(a) = defs.iter().find(|d| d.2 == a_kind) else { return };
            let of_b: Vec<&(usize, String, String)> = defs.iter().filter(|d| d.2 == b_kind).collect();
            if of_b.is_empty() || (which_b == 1 && of_b.len() == 1) {
                return;
            }
            let b = of_b[[0, of_b.len() - 1][which_b]];
            // the name must not already be taken inside kind A
            if defs.iter().any(|d| d.2 == a_kind && d.1 == b.1) {
                return;
            }
            c.note(format!("{}: a copy of {} \"{}\" named as {} \"{}\", {} it", fname, a_kind, a.1, b_kind, b.1, if after { "after" } else { "before" }));
            let (a0, a1) = extent(text, a.0);
            let twin = text[a0..a1].replace(&format!("\"{}\"", a.1), &format!("\"{}\"", b.1));
            let (b0, b1) = extent(text, b.0);
            let mut t = text.clone();
            t.insert_str(if after { b1 } else { b0 }, &twin);
            let edited = match hulc::ctehexml::parse_with_catalog(&t).map_err(|e| e.to_string()).and_then(|d| Model::try_from(&d).map_err(|e| e.to_string())) {
                Ok(m) => m,
                Err(e) => {
                    c.sample(|| format!("{}: {} named as {} \"{}\" rejected: {}", fname, a_kind, b_kind, b.1, e.chars().take(90).collect::<String>()));
                    return;
                }
            };
            let (ta, tb) = (id_table(base), id_table(&edited));
            let moved: Vec<String> = ta.iter().filter(|(coll, n, id)| !tb.iter().any(|(c2, n2, id2)| c2 == coll && n2 == n && id2 == id)).map(|(coll, n, _)| format!("{} {}", coll, n)).collect();
            c.check("C05.ids.local", moved.is_empty(), || format!("{}: adding a {} named as the {} \"{}\" ({} it) changed the id of (or lost) {} elements, e.g. {:?}", fname, a_kind, b_kind, b.1, if after { "after" } else { "before" }, moved.len(), &moved[..moved.len().min(3)]));
            let mut ids: Vec<(Uuid, String)> = tb.iter().map(|(coll, n, id)| (*id, format!("{} {}", coll, n))).collect();
            ids.sort();
            let shared: Vec<String> = ids.windows(2).filter(|w| w[0].0 == w[1].0).map(|w| format!("{} / {}", w[0].1, w[1].1)).collect();
            let mut ids0: Vec<Uuid> = ta.iter().map(|x| x.2).collect();
            ids0.sort();
            let shared0 = ids0.windows(2).filter(|w| w[0] == w[1]).count();
            c.check("C05.ids.namesake_distinct", shared.len() <= shared0, || format!("{}: with a {} named as the {} \"{}\" two elements share an id: {:?}", fname, a_kind, b_kind, b.1, &shared[..shared.len().min(3)]));
            c.nontrivial(format!("{} {} {}", fname, a_kind, b_kind));
            c.sample(|| format!("{}: {} named as {} \"{}\": {} -> {} elements, ids kept", fname, a_kind, b_kind, b.1, ta.len(), tb.len()));
        });
    }

    const REFERENCE_PAIRS: [(&str, &str); 6] = [
        ("cubo/cubo.ctehexml", "cubo.json"),
        ("e4h_medianeras/e4h_medianeras.ctehexml", "e4h_medianeras.json"),
        ("casoA/casoa.ctehexml", "caso_a.json"),
        ("ejemploviv_unif/ejemploviv_unif.ctehexml", "ejemploviv_unif.json"),
        ("ejemplo_gt_aerotermia/ejemplo_gt_aerotermia.ctehexml", "ejemplo_gt_aerotermia.json"),
        ("cubo_gt_caldera_radiadores/cubo_gt_caldera_radiadores.ctehexml", "cubo_gt_caldera_radiadores.json"),
    ];

    fn value_diff(a: &serde_json::Value, b: &serde_json::Value, path: &mut Vec<String>, out: &mut Vec<String>) {
        use serde_json::Value::*;
        if out.len() > 200 {
            return;
        }
        match (a, b) {
            (Object(x), Object(y)) => {
                for k in x.keys() {
                    path.push(k.clone());
                    match y.get(k) {
                        Some(q) => value_diff(&x[k], q, path, out),
                        None => out.push(format!("missing: /{}", path.join("/"))),
                    }
                    path.pop();
                }
                for k in y.keys().filter(|k| !x.contains_key(*k)) {
                    out.push(format!("extra: /{}/{}", path.join("/"), k));
                }
            }
            (Array(x), Array(y)) => {
                if x.len() != y.len() {
                    out.push(format!("array length {} -> {} at /{}", x.len(), y.len(), path.join("/")));
                }
                for (i, (p, q)) in x.iter().zip(y.iter()).enumerate() {
                    path.push(i.to_string());
                    value_diff(p, q, path, out);
                    path.pop();
                }
            }
            (Number(x), Number(y)) => {
                if (x.as_f64().unwrap_or(f64::NAN) as f32) != (y.as_f64().unwrap_or(f64::NAN) as f32) {
                    out.push(format!("number {} -> {} at /{}", x, y, path.join("/")));
                }
            }
            (p, q) => {
                if p != q {
                    out.push(format!("value {} -> {} at /{}", p, q, path.join("/")));
                }
            }
        }
    }

    #[test]
    fn n_c05_reference_models() {
        drive("C05.reference", "the 6 (project, reference model) pairs of the Makefile: the project converted today against bemodel/tests/data/<model>.json, as JSON values (numbers as f32)", |c| {
            let (proj, model) = c.of(&REFERENCE_PAIRS);
            c.note(format!("{} -> {}", proj, model));
            let text = std::fs::read_to_string(tests_root().join(proj)).expect("project file");
            let want_text = std::fs::read_to_string(crate_dir(env!("CARGO_MANIFEST_DIR")).join("tests/data").join(model)).expect("reference model");
            let got = match convert_to_json(&text) {
                Ok(j) => j,
                Err(e) => {
                    c.check("C05.reference.converts", false, || format!("{} does not convert: {}", proj, e));
                    return;
                }
            };
            let (g, w): (serde_json::Value, serde_json::Value) = (serde_json::from_str(&got).unwrap(), serde_json::from_str(&want_text).unwrap());
            let mut d = vec![];
            value_diff(&w, &g, &mut vec![], &mut d);
            c.check("C05.reference.exact", d.is_empty(), || format!("{}: {} differences with the shipped reference model, first: {:?}", proj, d.len(), &d[..d.len().min(4)]));
            c.nontrivial(proj.to_string());
            c.sample(|| format!("{} == {} ({} bytes)", proj, model, got.len()));
        });
    }

    /// The same building with the same ids and different content (what a user gets by editing a value in place)
    const N_VARIANTS: usize = 5;
    fn variant(m: &Model, v: usize) -> Model {
        let mut m = m.clone();
        match v {
            0 => m.schedules.day.iter_mut().for_each(|d| d.values.iter_mut().for_each(|x| *x *= 0.5)),
            1 => m.spaces.iter_mut().for_each(|s| s.height += 0.5),
            2 => m.cons.materials.iter_mut().for_each(|mat| {
                if let MatProps::Detailed { conductivity, .. } = &mut mat.properties {
                    *conductivity *= 2.0;
                }
            }),
            3 => m.meta.climate = if m.meta.climate == crate::climatedata::ClimateZone::A3c { crate::climatedata::ClimateZone::E1 } else { crate::climatedata::ClimateZone::A3c },
            _ => {
                m.windows.iter_mut().for_each(|w| w.geometry.width *= 0.5);
                m.cons.glasses.iter_mut().for_each(|g| g.g_gln *= 0.5);
                m.loads.iter_mut().for_each(|l| l.lighting *= 3.0);
            }
        }
        m
    }

    const CHILD_IND_ENV: &str = "VERIF_C05_CHILD_IND";

    fn shipped_models() -> Vec<(String, Model)> {
        let dir = crate_dir(env!("CARGO_MANIFEST_DIR")).join("tests/data");
        let mut files = vec![];
        files_with_ext(&dir, "json", &mut files);
        files
            .iter()
            .filter(|f| !f.to_string_lossy().contains("_results"))
            .filter_map(|f| Model::from_json(&std::fs::read_to_string(f).ok()?).ok().map(|m| (f.file_name().unwrap().to_string_lossy().to_string(), m)))
            .collect()
    }

    #[test]
    fn n_c05_indicators_history() {
        // fresh-process mode: indicators of ONE variant of one shipped model, computed with nothing before it
        if let Ok(spec) = std::env::var(CHILD_IND_ENV) {
            let parts: Vec<&str> = spec.splitn(3, ',').collect();
            let (i, v): (usize, usize) = (parts[0].parse().unwrap(), parts[1].parse().unwrap());
            let models = shipped_models();
            let val = serde_json::to_value(variant(&models[i].1, v).energy_indicators()).unwrap_or(serde_json::Value::Null);
            std::fs::write(parts[2], val.to_string()).unwrap();
            return;
        }
        let dir = crate_dir(env!("CARGO_MANIFEST_DIR")).join("tests/data");
        let mut files = vec![];
        files_with_ext(&dir, "json", &mut files);
        let models: Vec<(String, Model)> = files
            .iter()
            .filter(|f| !f.to_string_lossy().contains("_results"))
            .filter_map(|f| Model::from_json(&std::fs::read_to_string(f).ok()?).ok().map(|m| (f.file_name().unwrap().to_string_lossy().to_string(), m)))
            .collect();
        // each model alone, before anything else has been computed for it in this process
        // compared as JSON values: the order in which a map-typed result lists its keys is not a value
        let ind = |m: &Model| -> serde_json::Value { serde_json::to_value(m.energy_indicators()).unwrap_or(serde_json::Value::Null) };
        let alone: Vec<serde_json::Value> = models.iter().map(|(_, m)| ind(m)).collect();
        drive("C05.indicators", "the 7 shipped models: indicators of A computed after those of B (all ordered pairs), on 16 threads at once (every thread a different rotation of the 7 models), and 5 same-ids-other-content variants of each model computed after the model itself against a fresh process: identical JSON values", |c| {
            c.check("C05.indicators.corpus", models.len() >= 7, || format!("{} models loaded", models.len()));
            let mode = c.pick(3);
            if mode == 2 {
                // the same ids with other content: whatever was remembered about the first model must not leak
                let a = c.pick(models.len());
                let v = c.pick(N_VARIANTS);
                c.note(format!("{}: variant {} (same ids, other content) after the shipped model", models[a].0, v));
                let out = std::env::temp_dir().join(format!("verif-c05-ind-{}-{}-{}.json", std::process::id(), a, v));
                let status = std::process::Command::new(std::env::current_exe().unwrap())
                    .args(["--exact", "convert::from_ctehexml::verif_convert::n::n_c05_indicators_history", "--test-threads", "1"])
                    .env(CHILD_IND_ENV, format!("{},{},{}", a, v, out.display()))
                    .env_remove("VERIF_OUT")
                    .stdout(std::process::Stdio::null())
                    .stderr(std::process::Stdio::null())
                    .status();
                let fresh: serde_json::Value = std::fs::read_to_string(&out).ok().and_then(|t| serde_json::from_str(&t).ok()).unwrap_or(serde_json::Value::Null);
                let _ = std::fs::remove_file(&out);
                c.check("C05.indicators.fresh_process_ran", status.map(|s| s.success()).unwrap_or(false) && !fresh.is_null(), || "child process gave no result".to_string());
                let _ = ind(&models[a].1);
                let here = ind(&variant(&models[a].1, v));
                // through JSON text both: numbers compared as written
                let here: serde_json::Value = serde_json::from_str(&here.to_string()).unwrap_or(serde_json::Value::Null);
                c.check("C05.indicators.same_ids_other_content", here == fresh, || { let mut d = vec![]; value_diff(&fresh, &here, &mut vec![], &mut d); format!("{} variant {}: computed after the shipped model differs from a fresh process: {:?}", models[a].0, v, &d[..d.len().min(3)]) });
                c.check("C05.indicators.variant_differs", here != alone[a], || format!("{} variant {} has the same indicators as the shipped model (variant too weak)", models[a].0, v));
                c.nontrivial(format!("variant {} {}", a, v));
                c.sample(|| format!("{} variant {}: identical to a fresh process", models[a].0, v));
            } else if mode == 0 {
                let a = c.pick(models.len());
                let b = c.pick(models.len());
                c.note(format!("{} after {}", models[a].0, models[b].0));
                let _ = models[b].1.energy_indicators();
                let again = ind(&models[a].1);
                c.check("C05.indicators.history", again == alone[a] && !again.is_null(), || { let mut d = vec![]; value_diff(&alone[a], &again, &mut vec![], &mut d); format!("indicators of {} differ when computed after {}: {:?}", models[a].0, models[b].0, &d[..d.len().min(3)]) });
                c.nontrivial(format!("{} {}", a, b));
                c.sample(|| format!("{} after {}: identical ({})", models[a].0, models[b].0, fnv(&again.to_string())));
            } else {
                let shift = c.pick(2);
                c.note(format!("16 threads, rotation offset {}", shift));
                let res: Vec<Vec<(usize, serde_json::Value)>> = std::thread::scope(|sc| {
                    let hs: Vec<_> = (0..16usize)
                        .map(|i| {
                            let models = &models;
                            sc.spawn(move || (0..models.len()).map(|j| { let k = (i + shift + j * (1 + i % 3)) % models.len(); (k, ind(&models[k].1)) }).collect::<Vec<_>>())
                        })
                        .collect();
                    hs.into_iter().map(|h| h.join().unwrap_or_default()).collect()
                });
                let bad: Vec<String> = res.iter().flatten().filter(|(k, j)| *j != alone[*k]).map(|(k, _)| models[*k].0.clone()).collect();
                c.check("C05.indicators.concurrent", bad.is_empty() && res.iter().all(|r| r.len() == models.len()), || format!("{} concurrent computations differ from the sequential result: {:?}", bad.len(), &bad[..bad.len().min(3)]));
                c.nontrivial(format!("threads {}", shift));
                c.sample(|| format!("16 threads x {} models: all identical to the sequential results", models.len()));
            }
        });
    }

    // ---- C19: damaged project files are rejected with an error, never with a crash or hang ----------------------
    #[derive(Clone, Copy, PartialEq, Debug)]
    enum FileKind {
        Ctehexml,
        Cte,
        Kyg,
        Tbl,
    }

    enum Damaged {
        Converted,
        Rejected(String),
        Crashed(String, String),
        Hung,
    }

    fn process_damaged(kind: FileKind, text: String, scratch_name: String) -> Damaged {
        let r = run_with_timeout(60, move || {
            let r = std::panic::catch_unwind(std::panic::AssertUnwindSafe(|| -> Result<(), String> {
                match kind {
                    FileKind::Ctehexml => {
                        let d = hulc::ctehexml::parse_with_catalog(&text).map_err(|e| e.to_string())?;
                        Model::try_from(&d).map(|_| ()).map_err(|e| e.to_string())
                    }
                    FileKind::Cte => {
                        let mut data = hulc::ctehexml::CtehexmlData::default();
                        data.bdldata = Data::new(&text).map_err(|e| e.to_string())?;
                        Model::try_from(&data).map(|_| ()).map_err(|e| e.to_string())
                    }
                    FileKind::Kyg => hulc::kyg::parse(&text).map(|_| ()).map_err(|e| e.to_string()),
                    FileKind::Tbl => {
                        // tbl::parse reads a path (latin-1 text): the damaged text goes through a scratch file
                        let p = std::env::temp_dir().join(scratch_name);
                        let bytes: Vec<u8> = text.chars().map(|ch| if (ch as u32) < 256 { ch as u32 as u8 } else { b'?' }).collect();
                        std::fs::write(&p, bytes).map_err(|e| e.to_string())?;
                        let r = std::panic::catch_unwind(std::panic::AssertUnwindSafe(|| hulc::tbl::parse(&p).map(|_| ()).map_err(|e| e.to_string())));
                        let _ = std::fs::remove_file(&p);
                        match r {
                            Ok(x) => x,
                            Err(e) => std::panic::resume_unwind(e),
                        }
                    }
                }
            }));
            r.map_err(|e| (panic_text(&*e), last_panic_location()))
        });
        match r {
            None => Damaged::Hung,
            Some(Err((msg, loc))) => Damaged::Crashed(msg, loc),
            Some(Ok(Err(e))) => Damaged::Rejected(e),
            Some(Ok(Ok(()))) => Damaged::Converted,
        }
    }

    fn read_latin1(p: &Path) -> String {
        let bytes = std::fs::read(p).unwrap_or_default();
        match String::from_utf8(bytes.clone()) {
            Ok(s) => s,
            Err(_) => bytes.iter().map(|b| *b as char).collect(),
        }
    }

    fn c19_corpus() -> Vec<(FileKind, String, String)> {
        let mut out = vec![];
        let root = tests_root();
        for (ext, kind) in [("ctehexml", FileKind::Ctehexml), ("cte", FileKind::Cte), ("txt", FileKind::Kyg), ("tbl", FileKind::Tbl)] {
            let mut v = vec![];
            files_with_ext(&root, ext, &mut v);
            for p in v {
                let name = p.file_name().unwrap().to_string_lossy().to_string();
                if kind == FileKind::Kyg && !name.starts_with("KyGananciasSolares") {
                    continue;
                }
                let rel = p.strip_prefix(&root).unwrap().to_string_lossy().to_string();
                out.push((kind, rel, read_latin1(&p)));
            }
        }
        out
    }

    fn c19_drive(obligation: &'static str, scope: &'static str, step_quick: usize, kinds: &'static [FileKind]) {
        let corpus: Vec<(FileKind, String, String)> = c19_corpus().into_iter().filter(|f| kinds.contains(&f.0)).collect();
        let thorough = std::env::var("VERIF_TIER").map(|t| t == "thorough").unwrap_or(false);
        let seed: usize = std::env::var("VERIF_SEED").ok().and_then(|s| s.parse().ok()).unwrap_or(0);
        let step = if thorough { 1 } else { step_quick };
        // flat list of (file, line) of this tier's slice: every `step`-th line of every file, offset by the seed
        let mut slice: Vec<(usize, usize)> = vec![];
        for (fi, (_, _, text)) in corpus.iter().enumerate() {
            let n = text.split_inclusive('\n').count();
            let mut l = (seed + fi) % step;
            while l < n {
                slice.push((fi, l));
                l += step;
            }
        }
        let total_lines: usize = corpus.iter().map(|f| f.2.split_inclusive('\n').count()).sum();
        drive(obligation, scope, |c| {
            c.check("C19.corpus", corpus.len() >= kinds.len() && !slice.is_empty(), || format!("{} files, {} lines in the slice", corpus.len(), slice.len()));
            let k = c.pick(slice.len());
            let kind = c.pick(DAMAGE_KINDS.len());
            let (fi, line) = slice[k];
            let (fkind, fname, text) = &corpus[fi];
            let damaged = match damage(text, line, kind) {
                Some(t) => t,
                None => return,
            };
            c.note(format!("{} line {}: {}", fname, line + 1, DAMAGE_KINDS[kind]));
            match process_damaged(*fkind, damaged, format!("verif-c19-{}-{}-{}.tbl", std::process::id(), k, kind)) {
                Damaged::Converted => {
                    c.check("C19.converted_or_rejected", true, || String::new());
                    c.nontrivial(format!("{:?} {} converted", fkind, DAMAGE_KINDS[kind]));
                }
                Damaged::Rejected(e) => {
                    c.check("C19.converted_or_rejected", !e.is_empty(), || "rejected with an empty message".to_string());
                    c.nontrivial(format!("{:?} {} rejected", fkind, DAMAGE_KINDS[kind]));
                    c.sample(|| format!("{} line {} {}: rejected: {}", fname, line + 1, DAMAGE_KINDS[kind], e.chars().take(80).collect::<String>()));
                }
                Damaged::Crashed(msg, loc) => {
                    let site = crash_site(&msg, &loc);
                    c.check(&format!("C19.no_crash@{}", site), false, || format!("{} with line {} {}: panicked at {}: {}", fname, line + 1, DAMAGE_KINDS[kind], loc, msg.chars().take(160).collect::<String>()));
                }
                Damaged::Hung => {
                    c.check("C19.no_hang", false, || format!("{} with line {} {}: no answer in 60 s", fname, line + 1, DAMAGE_KINDS[kind]));
                    c.stop();
                }
            }
            let _ = total_lines;
        });
    }

    #[test]
    fn n_c19_projects() {
        c19_drive("C19.projects", "the 12 shipped .ctehexml projects: 11 kinds of single-line damage on every 8th line (quick; offset by VERIF_SEED) or on every line (thorough); real parser (with catalogue) + converter", 8, &[FileKind::Ctehexml]);
    }

    #[test]
    fn n_c19_legacy() {
        c19_drive("C19.legacy", "the 56 legacy LIDER .cte files: 11 kinds of single-line damage on every 20th line (quick) or every line (thorough); bdl::Data::new + Model::try_from", 20, &[FileKind::Cte]);
    }

    #[test]
    fn n_c19_results() {
        c19_drive("C19.results", "KyGananciasSolares.txt and NewBDL_O.tbl files: 11 kinds of single-line damage on every 4th line (quick) or every line (thorough); hulc::kyg::parse / hulc::tbl::parse", 4, &[FileKind::Kyg, FileKind::Tbl]);
    }
}
