// Contracts for bemodel/src/convert/from_ctehexml.rs (calendar arithmetic, angle conventions).
#![allow(dead_code, unused_imports, non_snake_case, clippy::all)]

use super::*;

pub(crate) const MONTH_DAYS: [u32; 12] = [31, 28, 31, 30, 31, 30, 31, 31, 30, 31, 30, 31];

/// Calendar ordinal of (day, month) in a non-leap year, written from the calendar (independent oracle)
pub(crate) fn ordinal(day: u32, month: u32) -> u32 {
    let mut n = 0;
    let mut m = 1;
    while m < month {
        n += MONTH_DAYS[(m - 1) as usize];
        m += 1;
    }
    n + day
}

#[cfg(kani)]
mod k {
    use super::*;

    fn any_f32_in(lo: f32, hi: f32) -> f32 {
        let v: f32 = kani::any();
        kani::assume(v >= lo && v <= hi);
        v
    }

    // C17.doy: day_of_year agrees with the calendar for every date of the non-leap year
    #[kani::proof]
    #[kani::unwind(13)]
    fn c17_day_of_year() {
        let m: u32 = kani::any();
        let d: u32 = kani::any();
        kani::assume(m >= 1 && m <= 12);
        kani::assume(d >= 1 && d <= MONTH_DAYS[(m - 1) as usize]);
        kani::cover!(m == 12 && d == 31, "31 Dec reachable");
        let n = day_of_year(d, m);
        assert!(n == ordinal(d, m), "C17.doy.calendar");
        assert!(n >= 1 && n <= 365, "C17.doy.range");
        if m == 12 && d == 31 {
            assert!(n == 365, "C17.doy.last");
        }
    }

    // C03.azimuth: BDL azimuth (N=0, E+) -> ISO 52016 (S=0, E+): result in [-180,180], congruent to 180 - a
    #[kani::proof]
    fn c03_azimuth_convention() {
        let a = any_f32_in(-1080.0, 1080.0);
        kani::cover!(true, "precondition satisfiable");
        let r = orientation_bdl_to_52016(a);
        assert!(r >= -180.0 && r <= 180.0, "C03.azimuth.range");
        let d = ((r as f64) - (180.0 - a as f64)) / 360.0;
        let k = d.round();
        assert!((d - k).abs() <= 2.0e-6, "C03.azimuth.congruent");
    }

    // (the shift lemma r(a + d) - r(a) = -d (mod 360) is a consequence of C03.azimuth - both sides are congruent to
    //  180 - x; its direct Kani proof took 100 s to > 3000 s depending on load and was dropped as unstable; the bounded
    //  obligation C03.rotation.azimuth_shift checks it on converted projects)
}

#[cfg(verif_native)]
mod n {
    use super::*;
    use crate::verif_root::support::*;
    use hulc::bdl::{DaySchedule, Schedule as BSchedule, WeekSchedule, YearSchedule};

    fn data_with(year: YearSchedule, weeks: Vec<WeekSchedule>, days: Vec<DaySchedule>) -> Data {
        let mut d = Data::default();
        for x in days {
            d.schedules.push(BSchedule::Day(x));
        }
        for x in weeks {
            d.schedules.push(BSchedule::Week(x));
        }
        d.schedules.push(BSchedule::Year(year));
        d
    }

    fn day(name: &str, values: Vec<f32>) -> DaySchedule {
        DaySchedule { name: name.to_string(), values, ..Default::default() }
    }

    const GRID: [(u32, u32); 14] = [(1, 1), (31, 1), (28, 2), (1, 3), (31, 3), (30, 4), (15, 6), (30, 6), (1, 7), (31, 7), (31, 8), (30, 9), (31, 10), (30, 12)];

    // C17.convert: end dates -> periods partitioning the 365-day year exactly at those dates
    #[test]
    fn n_c17_convert_year() {
        drive("C17.convert.year", "schedules_from_bdl: yearly schedules given by every increasing list of 0..2 end dates from a 14-date grid followed by 31 Dec, and by every single end date of the year followed by 31 Dec", |c| {
            let mode = c.pick(2);
            let mut dates: Vec<(u32, u32)> = vec![];
            if mode == 0 {
                let i = c.pick(GRID.len() + 1);
                if i < GRID.len() {
                    dates.push(GRID[i]);
                    let j = c.pick(GRID.len() + 1);
                    if j < GRID.len() {
                        if j <= i {
                            return; // not increasing
                        }
                        dates.push(GRID[j]);
                    }
                }
            } else {
                let k = 1 + c.pick(364) as u32; // ordinal 1..364
                let mut m = 1;
                let mut d = k;
                while d > MONTH_DAYS[(m - 1) as usize] {
                    d -= MONTH_DAYS[(m - 1) as usize];
                    m += 1;
                }
                dates.push((d, m));
            }
            dates.push((31, 12));
            c.note(format!("{:?}", dates));
            let weeks: Vec<WeekSchedule> = (0..dates.len()).map(|i| WeekSchedule { name: format!("W{}", i), days: vec!["D".to_string()], ..Default::default() }).collect();
            let year = YearSchedule { name: "Y".into(), days: dates.iter().map(|d| d.0).collect(), months: dates.iter().map(|d| d.1).collect(), weeks: weeks.iter().map(|w| w.name.clone()).collect(), ..Default::default() };
            let data = data_with(year, weeks.clone(), vec![day("D", vec![0.5])]);
            let maps = IdMaps::new(&data);
            let db = match schedules_from_bdl(&data, &maps) {
                Ok(db) => db,
                Err(e) => {
                    c.check("C17.convert.year.ok", false, || format!("conversion failed: {}", e));
                    return;
                }
            };
            let y = &db.year[0];
            let ords: Vec<u32> = dates.iter().map(|(d, m)| ordinal(*d, *m)).collect();
            let mut want = vec![];
            let mut prev = 0;
            for o in &ords {
                want.push(o - prev);
                prev = *o;
            }
            let got: Vec<u32> = y.values.iter().map(|v| v.1).collect();
            c.check("C17.convert.year.periods", got == want, || format!("period lengths {:?} want {:?}", got, want));
            c.check("C17.convert.year.partition", got.iter().sum::<u32>() == 365, || format!("period lengths add up to {}", got.iter().sum::<u32>()));
            let wids: Vec<Uuid> = weeks.iter().map(|w| maps.schedule_week_id(&w.name).unwrap()).collect();
            c.check("C17.convert.year.weeks", y.values.iter().map(|v| v.0).collect::<Vec<_>>() == wids, || "weekly schedule ids out of order".to_string());
            // and the converted database expands to exactly 365 days
            c.check("C17.convert.year.expands", db.get_year_as_day_sch(y.id).len() == 365, || format!("expands to {} days", db.get_year_as_day_sch(y.id).len()));
            c.nontrivial(format!("{:?}", dates));
            c.sample(|| format!("{:?} -> {:?}", dates, got));
        });
    }

    // weekly schedules into runs covering 7 days, daily ones into 24 values
    #[test]
    fn n_c17_convert_week_day() {
        drive("C17.convert.week", "schedules_from_bdl: every 7-day list over 2 daily schedule names (128), the 1-name form, daily schedules of 1 / 24 / other lengths", |c| {
            let form = c.pick(3);
            let names = ["A", "B"];
            let days_list: Vec<String> = if form == 0 {
                (0..7).map(|_| names[c.pick(2)].to_string()).collect()
            } else if form == 1 {
                vec![names[c.pick(2)].to_string()]
            } else {
                vec![]
            };
            let nvals = c.of(&[1usize, 24, 23, 0]);
            let dvals: Vec<f32> = (0..nvals).map(|h| (h as f32) / 100.0 + 0.25).collect();
            c.note(format!("week {:?} day values {}", days_list, nvals));
            let week = WeekSchedule { name: "W".into(), days: if form == 2 { vec!["A".to_string()] } else { days_list.clone() }, ..Default::default() };
            let year = YearSchedule { name: "Y".into(), days: vec![31], months: vec![12], weeks: vec!["W".into()], ..Default::default() };
            let data = data_with(year, vec![week], vec![day("A", dvals.clone()), day("B", vec![0.75])]);
            let maps = IdMaps::new(&data);
            let r = schedules_from_bdl(&data, &maps);
            if nvals != 1 && nvals != 24 {
                c.check("C17.convert.day.bad_length_rejected", r.is_err(), || format!("daily schedule with {} values accepted", nvals));
                return;
            }
            let db = match r {
                Ok(db) => db,
                Err(e) => {
                    c.check("C17.convert.week.ok", false, || format!("conversion failed: {}", e));
                    return;
                }
            };
            let a = db.day.iter().find(|d| d.name == "A").unwrap();
            c.check("C17.convert.day.24", a.values.len() == 24 && (0..24).all(|h| a.values[h] == if nvals == 1 { dvals[0] } else { dvals[h] }), || format!("daily values {:?}", a.values));
            if form != 2 {
                let w = &db.week[0];
                let expanded = w.to_day_sch();
                let ida = maps.schedule_day_id("A").unwrap();
                let idb = maps.schedule_day_id("B").unwrap();
                let want: Vec<Uuid> = if form == 0 { days_list.iter().map(|n| if n == "A" { ida } else { idb }).collect() } else { vec![if days_list[0] == "A" { ida } else { idb }; 7] };
                c.check("C17.convert.week.covers_7", expanded.len() == 7 && w.values.iter().map(|v| v.1).sum::<u32>() == 7, || format!("runs {:?}", w.values.iter().map(|v| v.1).collect::<Vec<_>>()));
                c.check("C17.convert.week.days", expanded == want, || "expanded weekly schedule differs from the 7-day list".to_string());
                c.check("C17.convert.week.runs_positive", w.values.iter().all(|v| v.1 >= 1), || "empty run".to_string());
                c.nontrivial(format!("{:?} {}", days_list, nvals));
            }
            c.sample(|| format!("week {:?} -> {:?}", days_list, db.week[0].values.iter().map(|v| v.1).collect::<Vec<_>>()));
        });
    }

    // ---- C03: conversion preserves geometry --------------------------------------------------------------------
    // The shipped `cubo` project (10 x 10 x 3 box: four walls on the edges of the space outline, a floor taken from the
    // outline, two polygon-defined roofs, windows, vertex-defined shades) is re-written with a space offset and a
    // building deviation and converted with the real parser + converter. Oracle: the source definition itself.
    const CUBO: &str = include_str!(concat!(env!("CARGO_MANIFEST_DIR"), "/../hulc_tests/tests/cubo/cubo.ctehexml"));

    fn cubo_variant(off: (f32, f32, f32), dev: f32, outline: &[(f32, f32)]) -> String {
        let mut s = CUBO.to_string();
        // building deviation from north (clockwise, degrees)
        let bp = s.find("= BUILD-PARAMETERS").expect("BUILD-PARAMETERS");
        let az = bp + s[bp..].find("AZIMUTH   = 0.000000").expect("AZIMUTH");
        s.replace_range(az..az + "AZIMUTH   = 0.000000".len(), &format!("AZIMUTH   = {:.6}", dev));
        // space offset
        let sp = s.find("\"P01_E01\" = SPACE").expect("SPACE");
        let eol = sp + s[sp..].find('\n').unwrap();
        s.insert_str(eol + 1, &format!("            X = {}\n            Y = {}\n            Z = {}\n", off.0, off.1, off.2));
        // space outline
        let pg = s.find("\"P01_E01_Pol2\" = POLYGON").expect("space polygon");
        let end = pg + s[pg..].find("..").unwrap();
        let mut txt = String::from("\"P01_E01_Pol2\" = POLYGON\n");
        for (i, (x, y)) in outline.iter().enumerate() {
            txt.push_str(&format!("    V{}   =( {}, {} )\n", i + 1, x, y));
        }
        txt.push_str("    ");
        s.replace_range(pg..end, &txt);
        // rectangular shades (origin, width, height, BDL azimuth of the outward normal clockwise from +Y, tilt)
        let sh = s.find("\"Sombra007\" = BUILDING-SHADE").expect("a BUILDING-SHADE block");
        let mut blocks = String::new();
        for (name, x, y, z, w, h, az, tilt) in RECT_SHADES.iter() {
            blocks.push_str(&format!("\"{}\" = BUILDING-SHADE\n      BULB-TRA = \"Default.bulb\"\n      BULB-REF = \"Default.bulb\"\n      TRAN     =              0\n      REFL     =            0.7\n      X        = {}\n      Y        = {}\n      Z        = {}\n      HEIGHT   = {}\n      WIDTH    = {}\n      TILT     = {}\n      AZIMUTH  = {}\n           ..\n", name, x, y, z, h, w, tilt, az));
        }
        s.insert_str(sh, &blocks);
        s
    }

    const RECT_SHADES: [(&str, f32, f32, f32, f32, f32, f32, f32); 3] = [
        ("vrf_screen_east", 12.0, 3.0, 0.0, 8.0, 6.0, 90.0, 90.0),
        ("vrf_screen_ssw", -5.0, 20.0, 1.5, 10.0, 4.0, 200.0, 90.0),
        ("vrf_canopy_nw", 4.0, -7.0, 3.0, 5.0, 3.0, 315.0, 60.0),
    ];

    fn world_corners(g: &WallGeom) -> Vec<Point3<f32>> {
        let m = g.to_global_coords_matrix().expect("positioned");
        g.polygon.iter().map(|p| m * point![p.x, p.y, 0.0]).collect()
    }

    fn same_set(a: &[Point3<f32>], b: &[Point3<f32>], tol: f32) -> bool {
        a.iter().all(|p| b.iter().any(|q| (p - q).norm() <= tol)) && b.iter().all(|q| a.iter().any(|p| (p - q).norm() <= tol))
    }

    #[test]
    fn n_c03_conversion() {
        drive("C03.conversion", "shipped project `cubo` re-written with space offset {(0,0,0),(3,7,0),(-4,2,1.5)} x building deviation {0,30,135,270} x outline {square 10x10, trapezoid}; parsed and converted by the real code; positions to 1 cm against the source definition", |c| {
            let off = c.of(&[(0.0f32, 0.0f32, 0.0f32), (3.0, 7.0, 0.0), (-4.0, 2.0, 1.5)]);
            let dev = c.of(&[0.0f32, 30.0, 135.0, 270.0]);
            let square = c.flag();
            let outline: Vec<(f32, f32)> = if square { vec![(0.0, 0.0), (10.0, 0.0), (10.0, 10.0), (0.0, 10.0)] } else { vec![(0.0, 0.0), (10.0, 0.0), (8.0, 6.0), (1.0, 7.0)] };
            c.note(format!("offset {:?} deviation {} outline {:?}", off, dev, outline));
            let text = cubo_variant(off, dev, &outline);
            let data = match hulc::ctehexml::parse_with_catalog(&text) {
                Ok(d) => d,
                Err(e) => {
                    c.check("C03.conversion.parses", false, || format!("parse failed: {}", e));
                    return;
                }
            };
            let model = match Model::try_from(&data) {
                Ok(m) => m,
                Err(e) => {
                    c.check("C03.conversion.converts", false, || format!("conversion failed: {}", e));
                    return;
                }
            };
            // building coordinates -> world: turn clockwise by the deviation
            let rot = Rotation3::from_euler_angles(0.0, 0.0, -(dev as f32).to_radians());
            let to_world = |x: f32, y: f32, z: f32| rot * point![x + off.0, y + off.1, z + off.2];
            let centroid = {
                let n = outline.len() as f32;
                let (sx, sy) = outline.iter().fold((0.0, 0.0), |a, p| (a.0 + p.0, a.1 + p.1));
                to_world(sx / n, sy / n, 1.5)
            };
            let height = 3.0f32;
            let mut n_edge = 0;
            for bw in &data.bdldata.walls {
                let w = match model.walls.iter().find(|w| w.name == bw.name) {
                    Some(w) => w,
                    None => {
                        c.check("C03.conversion.all_walls", false, || format!("wall {} missing in the model", bw.name));
                        continue;
                    }
                };
                let got = world_corners(&w.geometry);
                match bw.location.as_deref() {
                    Some(loc) if loc.starts_with('V') => {
                        let k: usize = loc[1..].parse::<usize>().unwrap() - 1;
                        let (p, q) = (outline[k], outline[(k + 1) % outline.len()]);
                        let want = vec![to_world(p.0, p.1, 0.0), to_world(q.0, q.1, 0.0), to_world(q.0, q.1, height), to_world(p.0, p.1, height)];
                        c.check("C03.edge_wall.spans_edge", same_set(&got, &want, 0.01), || format!("wall {} on {}: corners {:?} want {:?}", bw.name, loc, got, want));
                        let mid = to_world((p.0 + q.0) / 2.0, (p.1 + q.1) / 2.0, 1.5);
                        let nrm = crate::types::HasSurface::normal(&w.geometry);
                        c.check("C03.edge_wall.normal_outward", nrm.dot(&(mid - centroid)) > 0.0 && nrm.z.abs() < 1e-3, || format!("wall {} normal {:?} does not point away from the space", bw.name, nrm));
                        let len = ((q.0 - p.0).powi(2) + (q.1 - p.1).powi(2)).sqrt();
                        c.check("C03.area", (w.area() - len * height).abs() <= 0.02, || format!("wall {} area {} want {}", bw.name, w.area(), len * height));
                        n_edge += 1;
                    }
                    Some("BOTTOM") => {
                        let want: Vec<_> = outline.iter().map(|p| to_world(p.0, p.1, 0.0)).collect();
                        c.check("C03.floor.reproduces_outline", same_set(&got, &want, 0.01), || format!("floor {}: corners {:?} want {:?}", bw.name, got, want));
                        let a = {
                            let n = outline.len();
                            (0..n).map(|i| outline[i].0 * outline[(i + 1) % n].1 - outline[i].1 * outline[(i + 1) % n].0).sum::<f32>().abs() / 2.0
                        };
                        c.check("C03.area", (w.area() - a).abs() <= 0.02, || format!("floor area {} want {}", w.area(), a));
                    }
                    _ => {
                        // polygon-defined roofs of the source project: they tile the 10 x 10 outline at ceiling level
                        if square && bw.polygon.is_some() {
                            let sq: Vec<_> = outline.iter().map(|p| to_world(p.0, p.1, height)).collect();
                            c.check("C03.roof.corners", got.iter().all(|p| sq.iter().any(|q| (p - q).norm() <= 0.02)), || format!("roof {}: corners {:?} not on the outline at ceiling level {:?}", bw.name, got, sq));
                        }
                    }
                }
            }
            c.check("C03.conversion.edge_walls_seen", n_edge == 4, || format!("{} edge walls", n_edge));
            // windows keep size, offset and setback within their wall
            for bwin in &data.bdldata.windows {
                match model.windows.iter().find(|w| w.name == bwin.name) {
                    None => c.check("C03.window.present", false, || format!("window {} missing", bwin.name)),
                    Some(w) => {
                        let g = &w.geometry;
                        c.check("C03.window.keeps_geometry", (g.width - bwin.width).abs() < 0.01 && (g.height - bwin.height).abs() < 0.01 && (g.setback - bwin.setback).abs() < 0.01 && matches!(g.position, Some(p) if (p.x - bwin.x).abs() < 0.01 && (p.y - bwin.y).abs() < 0.01), || format!("window {}: {:?} vs source ({}, {}) {}x{} setback {}", bwin.name, g, bwin.x, bwin.y, bwin.width, bwin.height, bwin.setback));
                    }
                }
            }
            // vertex-defined shades keep their corner points (building coordinates turned by the deviation)
            for sh in &data.bdldata.shadings {
                if let Some(ms) = model.shades.iter().find(|m| m.name == sh.name) {
                    if let Some(verts) = &sh.vertices {
                        let want: Vec<_> = verts.iter().map(|v| rot * point![v.x, v.y, v.z]).collect();
                        let got = world_corners(&ms.geometry);
                        c.check("C03.shade.corners", same_set(&got, &want, 0.011), || format!("shade {}: corners {:?} want {:?}", sh.name, got, want));
                    }
                }
            }
            // rectangular shades keep their corner points: origin, width to the right seen from outside, height up the slope
            for (name, x, y, z, w, h, az, tilt) in RECT_SHADES.iter() {
                match model.shades.iter().find(|m| m.name == *name) {
                    None => c.check("C03.shade.rect.present", false, || format!("rectangular shade {} missing", name)),
                    Some(ms) => {
                        let (a, t) = (az.to_radians(), tilt.to_radians());
                        let n_h = Vector3::new(a.sin(), a.cos(), 0.0);
                        let u = Vector3::new(-a.cos(), a.sin(), 0.0);
                        let v = -t.cos() * n_h + t.sin() * Vector3::z();
                        let o = point![*x, *y, *z];
                        let want: Vec<_> = [o, o + *w * u, o + *w * u + *h * v, o + *h * v].iter().map(|p| rot * p).collect();
                        let got = world_corners(&ms.geometry);
                        c.check("C03.shade.rect.corners", same_set(&got, &want, 0.011), || format!("rectangular shade {}: corners {:?} want {:?}", name, got, want));
                    }
                }
            }
            // turning the building leaves areas, volumes, K and n50 unchanged (compared with the unturned variant)
            if dev != 0.0 {
                let base = Model::try_from(&hulc::ctehexml::parse_with_catalog(&cubo_variant(off, 0.0, &outline)).unwrap()).unwrap();
                let (a, b) = (model.energy_indicators(), base.energy_indicators());
                c.check("C03.rotation.invariants", (a.area_ref - b.area_ref).abs() < 0.011 && (a.vol_env_net - b.vol_env_net).abs() < 0.011 && (a.K_data.K - b.K_data.K).abs() < 1e-3 && (a.n50_data.n50 - b.n50_data.n50).abs() < 1e-3, || format!("turned by {}: A {} / {} V {} / {} K {} / {} n50 {} / {}", dev, a.area_ref, b.area_ref, a.vol_env_net, b.vol_env_net, a.K_data.K, b.K_data.K, a.n50_data.n50, b.n50_data.n50));
                // every azimuth shifts by -dev (mod 360)
                for (w, w0) in model.walls.iter().zip(base.walls.iter()) {
                    let d = (w0.geometry.azimuth - w.geometry.azimuth - dev).rem_euclid(360.0);
                    c.check("C03.rotation.azimuth_shift", d < 0.02 || d > 359.98, || format!("wall {}: azimuth {} -> {} after turning by {}", w.name, w0.geometry.azimuth, w.geometry.azimuth, dev));
                }
            }
            c.nontrivial(format!("{:?} {} {}", off, dev, square));
            c.sample(|| format!("offset {:?} deviation {} square {} -> {} walls {} windows {} shades", off, dev, square, model.walls.len(), model.windows.len(), model.shades.len()));
        });
    }
}
