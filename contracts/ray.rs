// Contracts for bemodel/src/energy/raytracing/ray.rs (ray / planar polygon intersection, point in polygon).
#![allow(dead_code, unused_imports, non_snake_case, clippy::all)]

use super::*;
use crate::{point, vector};

#[cfg(kani)]
mod k {
    use super::*;

    fn any_coord(bound: i32) -> (i32, f32) {
        let v: i32 = kani::any();
        kani::assume(v >= -bound && v <= bound);
        (v, v as f32)
    }

    // C13.pip.triangle: for every triangle with integer corners in [-b,b]^2 (either winding, not degenerate) and every
    // integer point that is on none of the three side lines, point_in_poly says "inside" exactly when the point is on
    // the same side of the three sides. All products stay far below 2^24, so the f32 arithmetic of the function is exact.
    fn pip_triangle(bound: i32) {
        let ((ax, afx), (ay, afy)) = (any_coord(bound), any_coord(bound));
        let ((bx, bfx), (by, bfy)) = (any_coord(bound), any_coord(bound));
        let ((cx, cfx), (cy, cfy)) = (any_coord(bound), any_coord(bound));
        let ((px, pfx), (py, pfy)) = (any_coord(bound), any_coord(bound));
        let cross = |ox: i32, oy: i32, ux: i32, uy: i32, vx: i32, vy: i32| (ux - ox) * (vy - oy) - (uy - oy) * (vx - ox);
        let area2 = cross(ax, ay, bx, by, cx, cy);
        kani::assume(area2 != 0);
        let (s1, s2, s3) = (cross(ax, ay, bx, by, px, py), cross(bx, by, cx, cy, px, py), cross(cx, cy, ax, ay, px, py));
        kani::assume(s1 != 0 && s2 != 0 && s3 != 0);
        kani::cover!(s1 > 0 && s2 > 0 && s3 > 0, "a strictly interior point exists");
        let want = (s1 > 0 && s2 > 0 && s3 > 0) || (s1 < 0 && s2 < 0 && s3 < 0);
        let poly = [point![afx, afy], point![bfx, bfy], point![cfx, cfy]];
        let got = point_in_poly(point![pfx, pfy], &poly);
        assert!(got == want, "C13.pip.triangle");
    }

    #[kani::proof]
    #[kani::unwind(5)]
    fn c13_pip_triangle_3() {
        pip_triangle(3);
    }

    // (571 s when measured alone)
    #[kani::proof]
    #[kani::unwind(5)]
    fn c13_pip_triangle_5() {
        pip_triangle(5);
    }
}

#[cfg(verif_native)]
mod n {
    use super::*;
    use crate::verif_root::support::*;

    /// Exact point-in-polygon for integer polygons and a point at half-integer coordinates (never on an edge
    /// line's lattice points): winding by crossing count in integer arithmetic (coordinates doubled).
    fn inside_exact(px2: i64, py2: i64, poly: &[(i64, i64)]) -> Option<bool> {
        // returns None when the point lies on the outline
        let n = poly.len();
        let mut crossings = 0;
        for i in 0..n {
            let (x0, y0) = (2 * poly[i].0, 2 * poly[i].1);
            let (x1, y1) = (2 * poly[(i + 1) % n].0, 2 * poly[(i + 1) % n].1);
            // on segment?
            let cross = (x1 - x0) * (py2 - y0) - (y1 - y0) * (px2 - x0);
            if cross == 0 && px2 >= x0.min(x1) && px2 <= x0.max(x1) && py2 >= y0.min(y1) && py2 <= y0.max(y1) {
                return None;
            }
            // half-open rule on y
            if (y0 <= py2) != (y1 <= py2) {
                // x coordinate of the crossing compared with px2, without division
                let lhs = (x1 - x0) * (py2 - y0);
                let rhs = (px2 - x0) * (y1 - y0);
                let right = if y1 > y0 { lhs > rhs } else { lhs < rhs };
                if right {
                    crossings += 1;
                }
            }
        }
        Some(crossings % 2 == 1)
    }

    fn any_poly(c: &mut Ctx) -> Vec<(i64, i64)> {
        // simple polygons (convex and non-convex) on the integer grid 0..4
        let polys: Vec<Vec<(i64, i64)>> = vec![
            vec![(0, 0), (4, 0), (4, 3), (0, 3)],
            vec![(0, 0), (4, 0), (0, 4)],
            vec![(0, 0), (4, 0), (4, 4), (2, 1), (0, 4)],          // M shape (non-convex)
            vec![(0, 0), (4, 0), (4, 1), (1, 1), (1, 3), (4, 3), (4, 4), (0, 4)], // C shape
            vec![(0, 3), (4, 3), (4, 0), (0, 0)],                  // clockwise
            vec![(1, 0), (3, 0), (4, 2), (2, 4), (0, 2)],          // pentagon
        ];
        let k = c.pick(polys.len());
        let shift = c.pick(3);
        let mut p = polys[k].clone();
        p.rotate_left(shift % polys[k].len());
        p
    }

    // C13.pip: point_in_poly equals the exact crossing-number answer for points off the outline
    #[test]
    fn n_c13_point_in_poly() {
        drive("C13.pip", "point_in_poly: 6 simple polygons (convex, non-convex, both windings) x 3 start vertices on the integer grid 0..4; points on the quarter grid -1..5 (x4 resolution), outline points excluded", |c| {
            let poly = any_poly(c);
            let ix = c.pick(25);
            let iy = c.pick(25);
            // point = (-1 + ix/4, -1 + iy/4); doubled-coordinates would not be integral, so scale the polygon instead
            let (px4, py4) = (-4 + ix as i64, -4 + iy as i64);
            let poly4: Vec<(i64, i64)> = poly.iter().map(|(x, y)| (4 * x, 4 * y)).collect();
            // inside_exact doubles polygon coords and takes doubled point coords
            let want = inside_exact(2 * px4, 2 * py4, &poly4);
            c.note(format!("poly {:?} point ({}, {})", poly, px4 as f32 / 4.0, py4 as f32 / 4.0));
            if let Some(want) = want {
                let fp: Vec<crate::Point2> = poly.iter().map(|(x, y)| point![*x as f32, *y as f32]).collect();
                let got = point_in_poly(point![px4 as f32 / 4.0, py4 as f32 / 4.0], &fp);
                c.check("C13.pip", got == want, || format!("point_in_poly says {} but the point is {}", got, if want { "inside" } else { "outside" }));
                if want {
                    c.nontrivial(format!("{:?} {} {}", poly, px4, py4));
                }
                c.sample(|| format!("{:?} ({}, {}) -> {}", poly, px4 as f32 / 4.0, py4 as f32 / 4.0, got));
            }
        });
    }

    // C13.ray.poly: a ray hits a planar polygon exactly when it crosses the polygon's plane in front of its origin
    // at a point inside the polygon. Identity pose (polygon in the plane z = 0): exact rational oracle.
    #[test]
    fn n_c13_ray_polygon() {
        drive("C13.ray.poly", "Ray::intersects_with_data, identity pose: 6 polygons x 3 start vertices; origins on a 5x5 half-integer grid at z in {-2, 3}; directions through a 5x5 grid of target points at z = 0 plus parallel / receding rays", |c| {
            let poly = any_poly(c);
            let fp: Vec<crate::Point2> = poly.iter().map(|(x, y)| point![*x as f32, *y as f32]).collect();
            let oz = c.of(&[-2.0f32, 3.0]);
            let ox = c.pick(5) as f32 - 0.5;
            let oy = c.pick(5) as f32 + 0.25;
            // target point on the plane (quarter grid, off the lattice lines mostly)
            let tx4 = -2 + 5 * c.pick(5) as i64 + 1; // -1, 4, 9, 14, 19  -> /4
            let ty4 = -2 + 5 * c.pick(5) as i64 + 1;
            let mode = c.pick(3); // 0: towards the target, 1: away from it, 2: parallel to the plane
            let target = point![tx4 as f32 / 4.0, ty4 as f32 / 4.0, 0.0];
            let origin = point![ox, oy, oz];
            let dir = match mode {
                0 => target - origin,
                1 => origin - target,
                _ => vector![1.0, 0.5, 0.0],
            };
            c.note(format!("poly {:?} origin {:?} target ({}, {}) mode {}", poly, (ox, oy, oz), tx4 as f32 / 4.0, ty4 as f32 / 4.0, mode));
            let ray = Ray::new(origin, dir);
            let normal = crate::types::HasSurface::normal(&fp);
            let ident = nalgebra::IsometryMatrix3::<f32>::identity();
            let got = ray.intersects_with_data(&fp, Some(&ident), &normal);
            let poly4: Vec<(i64, i64)> = poly.iter().map(|(x, y)| (4 * x, 4 * y)).collect();
            let inside = inside_exact(2 * tx4, 2 * ty4, &poly4);
            let want = match (mode, inside) {
                (0, Some(b)) => Some(b),
                (0, None) => None, // on the outline: not decided
                _ => Some(false),
            };
            if let Some(want) = want {
                c.check("C13.ray.poly", got.is_some() == want, || format!("intersects_with_data = {:?} but exact geometry says hit = {}", got, want));
                if let Some(t) = got {
                    let dist = (target - origin).norm();
                    c.check("C13.ray.poly.t", (t - dist).abs() <= 1e-4 * dist, || format!("t = {} but the crossing point is at distance {}", t, dist));
                }
                if want {
                    c.nontrivial(format!("{:?} {} {} {} {} {}", poly, ox, oy, oz, tx4, ty4));
                }
                c.sample(|| format!("origin ({}, {}, {}) -> target ({}, {}) mode {}: {:?}", ox, oy, oz, tx4 as f32 / 4.0, ty4 as f32 / 4.0, mode, got));
            }
            // no transformation matrix => no geometric definition => never a hit
            c.check("C13.ray.poly.no_matrix", ray.intersects_with_data(&fp, None, &normal).is_none(), || "hit without a pose".to_string());
        });
    }
}
