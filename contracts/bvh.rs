// Contracts for bemodel/src/energy/raytracing/bvh.rs. Child module of `bvh`: private builder functions in reach.
#![allow(dead_code, unused_imports, non_snake_case, clippy::all)]

use super::*;
use crate::{point, vector};

/// An obstacle with abstract geometry: its box and whether the exact shape is hit when the box is
#[derive(Clone, Copy, Debug, PartialEq)]
pub(crate) struct Obst {
    pub aabb: AABB,
    pub hit: bool,
    pub tag: u32,
}

impl Bounded for Obst {
    fn aabb(&self) -> AABB {
        self.aabb
    }
}

impl Intersectable for Obst {
    fn intersects(&self, ray: &Ray) -> Option<f32> {
        let t = self.aabb.intersects(ray)?;
        if self.hit {
            Some(t)
        } else {
            None
        }
    }
}

// (Kani harnesses for contract P on 2 / 3 symbolic boxes were tried: CBMC runs out of memory on the iterator /
//  Vec::partition code after 6-14 minutes; P stays a bounded obligation, see DESIGN.md)

#[cfg(verif_native)]
mod n {
    use super::*;
    use crate::verif_root::support::*;

    fn pool() -> Vec<AABB> {
        // unit-ish boxes on a grid; several share their centre (coinciding centres), one is a duplicate
        vec![
            AABB::new(point![0.0, 0.0, 0.0], point![1.0, 1.0, 1.0]),
            AABB::new(point![2.0, 0.0, 0.0], point![3.0, 1.0, 1.0]),
            AABB::new(point![0.0, 2.0, 0.0], point![1.0, 3.0, 1.0]),
            AABB::new(point![0.0, 0.0, 2.0], point![1.0, 1.0, 3.0]),
            AABB::new(point![-0.5, -0.5, -0.5], point![1.5, 1.5, 1.5]), // same centre as box 0
            AABB::new(point![0.0, 0.0, 0.0], point![1.0, 1.0, 1.0]),    // duplicate of box 0
        ]
    }

    fn rays() -> Vec<Ray> {
        vec![
            Ray::new(point![-5.0, 0.5, 0.5], vector![1.0, 0.0, 0.0]),
            Ray::new(point![0.5, -5.0, 0.5], vector![0.0, 1.0, 0.0]),
            Ray::new(point![0.5, 0.5, 9.0], vector![0.0, 0.0, -1.0]),
            Ray::new(point![-5.0, 2.5, 0.5], vector![1.0, 0.0, 0.0]),
            Ray::new(point![-1.0, -1.0, -1.0], vector![1.0, 1.0, 1.0]),
            Ray::new(point![10.0, 10.0, 10.0], vector![1.0, 0.0, 0.0]),
            Ray::new(point![2.5, 0.5, -3.0], vector![0.0, 0.0, 1.0]),
            // the first ray written as the negation of its opposite: the zero components are -0.0
            Ray::new(point![-5.0, 0.5, 0.5], -vector![-1.0, 0.0, 0.0]),
            Ray::new(point![0.5, 0.5, 9.0], -vector![0.0, 0.0, 1.0]),
        ]
    }

    fn pick_set(c: &mut Ctx, maxn: usize) -> Vec<Obst> {
        let p = pool();
        let n = c.pick(maxn + 1);
        let mut v = vec![];
        for i in 0..n {
            let k = c.pick(p.len());
            let hit = c.flag();
            v.push(Obst { aabb: p[k], hit, tag: (i * 16 + k) as u32 });
        }
        v
    }

    // C13.build.equiv: the accelerated answer equals testing every obstacle one by one; building terminates
    #[test]
    fn n_c13_bvh_equiv() {
        drive(
            "C13.bvh.equiv",
            "BVH::build + intersects vs exhaustive test: obstacle sets of size 0..3 (0..4 thorough) drawn with repetition from 6 boxes (2 share a centre, 1 duplicate) x hit flag; leaf size {1,2,30}; 9 rays (two with -0.0 direction components)",
            |c| {
                let maxn = if c.tier_thorough { 4 } else { 3 };
                let leaf = c.of(&[1usize, 2, 30]);
                let set = pick_set(c, maxn);
                c.note(format!("leaf={} set={:?}", leaf, set.iter().map(|o| (o.tag, o.hit)).collect::<Vec<_>>()));
                let s2 = set.clone();
                let built = run_with_timeout(5, move || BVH::build(s2, leaf));
                let bvh = match built {
                    None => {
                        c.check("C13.build.terminates", false, || "BVH::build did not terminate within 5 s".to_string());
                        c.stop();
                        return;
                    }
                    Some(b) => b,
                };
                c.check("C13.build.terminates", true, || String::new());
                let mut any_hit = false;
                for (ri, ray) in rays().iter().enumerate() {
                    let direct = set.iter().any(|o| o.intersects(ray).is_some());
                    let acc = bvh.intersects(ray).is_some();
                    any_hit |= direct;
                    c.check("C13.build.equiv", acc == direct, || format!("ray {}: accelerated answer {} but exhaustive answer {}", ri, acc, direct));
                }
                if any_hit {
                    c.nontrivial(format!("{}|{:?}", leaf, set.iter().map(|o| (o.tag % 16, o.hit)).collect::<Vec<_>>()));
                }
                c.sample(|| format!("leaf={} n={} -> hits {}", leaf, set.len(), any_hit));
            },
        );
    }

    // many obstacles with coinciding centres: building terminates and stays exact
    #[test]
    fn n_c13_bvh_many() {
        drive(
            "C13.bvh.many",
            "BVH::build on n in {31,45,64,200} obstacles: all the same box / all the same centre with growing size / distinct boxes along a line / a mix; leaf size {2,30}; 9 rays (two with -0.0 direction components)",
            |c| {
                let n = c.of(&[31usize, 45, 64, 200]);
                let kind = c.pick(4);
                let leaf = c.of(&[2usize, 30]);
                let mut set = vec![];
                for i in 0..n {
                    let f = i as f32;
                    let b = match kind {
                        0 => AABB::new(point![0.0, 0.0, 0.0], point![1.0, 1.0, 1.0]),
                        1 => AABB::new(point![0.5 - 0.01 * (f + 1.0), 0.5 - 0.01 * (f + 1.0), 0.5 - 0.01 * (f + 1.0)], point![0.5 + 0.01 * (f + 1.0), 0.5 + 0.01 * (f + 1.0), 0.5 + 0.01 * (f + 1.0)]),
                        2 => AABB::new(point![2.0 * f, 0.0, 0.0], point![2.0 * f + 1.0, 1.0, 1.0]),
                        _ => {
                            if i % 3 == 0 {
                                AABB::new(point![0.0, 0.0, 0.0], point![1.0, 1.0, 1.0])
                            } else {
                                AABB::new(point![0.0, 2.0 * f, 0.0], point![1.0, 2.0 * f + 1.0, 1.0])
                            }
                        }
                    };
                    set.push(Obst { aabb: b, hit: i % 2 == 0 || i == n - 1, tag: i as u32 });
                }
                c.note(format!("n={} kind={} leaf={}", n, kind, leaf));
                let s2 = set.clone();
                let built = run_with_timeout(5, move || BVH::build(s2, leaf));
                let bvh = match built {
                    None => {
                        c.check("C13.build.terminates", false, || format!("BVH::build of {} obstacles (kind {}) did not terminate within 5 s", n, kind));
                        c.stop();
                        return;
                    }
                    Some(b) => b,
                };
                c.check("C13.build.terminates", true, || String::new());
                for (ri, ray) in rays().iter().enumerate() {
                    let direct = set.iter().any(|o| o.intersects(ray).is_some());
                    let acc = bvh.intersects(ray).is_some();
                    c.check("C13.build.equiv", acc == direct, || format!("ray {}: accelerated {} exhaustive {}", ri, acc, direct));
                }
                // one vertical ray per obstacle, straight down onto its centre: deep trees must find every single leaf
                for (k, o) in set.iter().enumerate() {
                    let ctr = o.aabb.center();
                    let ray = Ray::new(point![ctr.x, ctr.y, 50.0], vector![0.0, 0.0, -1.0]);
                    let direct = set.iter().any(|x| x.intersects(&ray).is_some());
                    let acc = bvh.intersects(&ray).is_some();
                    c.check("C13.build.equiv", acc == direct, || format!("vertical ray onto obstacle {}: accelerated {} exhaustive {}", k, acc, direct));
                }
                c.nontrivial(format!("{} {} {}", n, kind, leaf));
                c.sample(|| format!("n={} kind={} leaf={} built", n, kind, leaf));
            },
        );
    }

    // Contract P of the partition step (assumed by the Verus proof of the builder): both halves non-empty, nothing lost
    #[test]
    fn n_c13_partition() {
        drive(
            "C13.partition",
            "partition_elements_by_centroid: sets of size 2..4 (2..5 thorough) drawn with repetition from 6 boxes incl. coinciding centres and duplicates",
            |c| {
                let maxn = if c.tier_thorough { 5 } else { 4 };
                let p = pool();
                let n = 2 + c.pick(maxn - 1);
                let mut set = vec![];
                for i in 0..n {
                    let k = c.pick(p.len());
                    set.push(Obst { aabb: p[k], hit: true, tag: (i * 16 + k) as u32 });
                }
                c.note(format!("{:?}", set.iter().map(|o| o.tag % 16).collect::<Vec<_>>()));
                let (l, r) = BVH::partition_elements_by_centroid(set.clone());
                c.check("C13.partition.nothing_lost", {
                    let mut a: Vec<u32> = l.iter().chain(r.iter()).map(|o| o.tag).collect();
                    let mut b: Vec<u32> = set.iter().map(|o| o.tag).collect();
                    a.sort();
                    b.sort();
                    a == b
                }, || format!("left {} + right {} of {}", l.len(), r.len(), n));
                c.check("C13.partition.both_nonempty", !l.is_empty() && !r.is_empty(), || format!("split {} / {}: the builder cannot make progress on this set", l.len(), r.len()));
                if !l.is_empty() && !r.is_empty() {
                    c.nontrivial(format!("{:?}", set.iter().map(|o| o.tag % 16).collect::<Vec<_>>()));
                }
                c.sample(|| format!("{:?} -> {} / {}", set.iter().map(|o| o.tag % 16).collect::<Vec<_>>(), l.len(), r.len()));
            },
        );
    }

    // contract P on sets of n boxes that share their centre at a value that is not a dyadic fraction: the f32 mean of n
    // equal centres can round just above or just below the centre itself, so "everything left" and "everything right"
    // both occur; P (both halves non-empty, nothing lost) must hold either way
    #[test]
    fn n_c13_partition_identical() {
        drive("C13.partition.identical", "partition_elements_by_centroid on n = 2..80 boxes with the same centre c in {0.1, 3.9, 1/3, 0.001, 123.456, -3.9, 7.7} on all axes, all the same size or growing: contract P; BVH::build (leaf size 2 / 30) terminates on the same sets", |c| {
            let n = 2 + c.pick(79);
            let centre = c.of(&[0.1f32, 3.9, 1.0 / 3.0, 0.001, 123.456, -3.9, 7.7]);
            let growing = c.flag();
            c.note(format!("{} boxes centred at {} ({})", n, centre, if growing { "growing" } else { "identical" }));
            let set: Vec<Obst> = (0..n)
                .map(|i| {
                    let h = if growing { 0.5 + 0.25 * i as f32 } else { 0.5 };
                    Obst { aabb: AABB::new(point![centre - h, centre - h, centre - h], point![centre + h, centre + h, centre + h]), hit: i % 2 == 0, tag: i as u32 }
                })
                .collect();
            let (l, r) = BVH::partition_elements_by_centroid(set.clone());
            c.check("C13.partition.nothing_lost", l.len() + r.len() == n, || format!("left {} + right {} of {}", l.len(), r.len(), n));
            c.check("C13.partition.both_nonempty", !l.is_empty() && !r.is_empty(), || format!("split {} / {} of {} boxes centred at {}: the builder cannot make progress on this set", l.len(), r.len(), n, centre));
            let leaf = c.of(&[2usize, 30]);
            let s2 = set.clone();
            match run_with_timeout(5, move || BVH::build(s2, leaf)) {
                None => {
                    c.check("C13.build.terminates", false, || format!("BVH::build of {} boxes centred at {} (leaf size {}) did not terminate within 5 s", n, centre, leaf));
                    c.stop();
                }
                Some(_) => c.check("C13.build.terminates", true, || String::new()),
            }
            c.nontrivial(format!("{} {} {}", n, centre, growing));
            c.sample(|| format!("{} boxes at {} -> {} / {}", n, centre, l.len(), r.len()));
        });
    }
}
