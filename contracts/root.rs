// Contracts and proof harnesses for items reachable from the crate root of `bemodel`
// (utils, types::common, types::geometry, opaques). Compiled only under cfg(kani) / cfg(verif_native).
// This file is NOT part of /repo: the injector appends `#[path = ...] mod verif_root;` to a scratch copy of lib.rs.
#![allow(dead_code, unused_imports, non_snake_case, clippy::all)]

#[cfg(verif_native)]
#[path = "support.rs"]
pub mod support;

#[cfg(kani)]
mod k {
    use crate::utils::{fround2, fround3, normalize};
    use crate::{Orientation, Tilt};

    fn any_f32_in(lo: f32, hi: f32) -> f32 {
        let v: f32 = kani::any();
        kani::assume(v >= lo && v <= hi);
        v
    }

    // ---- C11: classifiers depend only on the angle modulo 360 -------------------------------
    // For all f32 a, b in [-720, 1080] with b - a == 360*k exactly (k in 1..=5, decided in f64 where
    // the subtraction of two f32 is exact): class(a) == class(b).
    fn congruent_pair() -> (f32, f32) {
        let a = any_f32_in(-720.0, 1080.0);
        let b = any_f32_in(-720.0, 1080.0);
        let d = b as f64 - a as f64;
        kani::assume(d == 360.0 || d == 720.0 || d == 1080.0 || d == 1440.0 || d == 1800.0);
        (a, b)
    }

    #[kani::proof]
    fn c11_tilt_mod360() {
        let (a, b) = congruent_pair();
        kani::cover!(true, "precondition satisfiable");
        assert!(Tilt::from(a) == Tilt::from(b), "C11.tilt.mod360");
    }

    #[kani::proof]
    fn c11_orient_mod360() {
        let (a, b) = congruent_pair();
        kani::cover!(true, "precondition satisfiable");
        assert!(Orientation::from(a) == Orientation::from(b), "C11.orient.mod360");
    }

    // Sector table of Tilt::from over one turn (statement C06/C11: floor / wall / roof classes)
    #[kani::proof]
    fn c11_tilt_sectors() {
        let t = any_f32_in(0.0, 360.0);
        kani::cover!(true, "precondition satisfiable");
        let expect = if t <= 60.0 {
            Tilt::TOP
        } else if t < 120.0 {
            Tilt::SIDE
        } else if t < 240.0 {
            Tilt::BOTTOM
        } else if t < 300.0 {
            Tilt::SIDE
        } else {
            Tilt::TOP
        };
        assert!(Tilt::from(t) == expect, "C11.tilt.sectors");
    }

    // The parser (hulc) and the model classify every tilt in [0,360] identically
    #[kani::proof]
    fn c11_tilt_parser_model() {
        let t = any_f32_in(0.0, 360.0);
        kani::cover!(true, "precondition satisfiable");
        let w = hulc::bdl::Wall { tilt: t, ..Default::default() };
        let p = w.position();
        let m = Tilt::from(t);
        let same = matches!(
            (p, m),
            (hulc::bdl::Tilt::TOP, Tilt::TOP) | (hulc::bdl::Tilt::SIDE, Tilt::SIDE) | (hulc::bdl::Tilt::BOTTOM, Tilt::BOTTOM)
        );
        assert!(same, "C11.tilt.parser_model");
    }

    // Compass sectors of Orientation::from (ISO 52016 azimuth: S=0, E=+90, W=-90 == 270), stated on [0,360)
    // where the reduction is the identity; every other angle is covered by c11_orient_mod360.
    // DB-HE sector limits: S +-18, SE/SW 18..69, E/W 69..120, NE/NW 120..157.5, N beyond 157.5.
    #[kani::proof]
    fn c11_orient_sectors() {
        let a = any_f32_in(0.0, 360.0);
        kani::assume(a < 360.0);
        kani::cover!(true, "precondition satisfiable");
        let expect = if a < 18.0 {
            Orientation::S
        } else if a < 69.0 {
            Orientation::SE
        } else if a < 120.0 {
            Orientation::E
        } else if a < 157.5 {
            Orientation::NE
        } else if a < 202.5 {
            Orientation::N
        } else if a < 240.0 {
            Orientation::NW
        } else if a < 291.0 {
            Orientation::W
        } else if a < 342.0 {
            Orientation::SW
        } else {
            Orientation::S
        };
        assert!(Orientation::from(a) == expect, "C11.orient.sectors");
    }

    #[kani::proof]
    fn c11_normalize_range() {
        let v = any_f32_in(-1080.0, 1080.0);
        kani::cover!(true, "precondition satisfiable");
        let r = normalize(v, 0.0, 360.0);
        // (a negative denormal input survives the reduction unchanged: the lower bound is -f32::MIN_POSITIVE)
        assert!(r >= -1.0e-37 && r <= 360.0, "C11.normalize.range");
        // congruent to v modulo 360 (within float error of the reduction)
        let d = (r as f64 - v as f64) / 360.0;
        let k = d.round();
        assert!((d - k).abs() <= 1.0e-6, "C11.normalize.congruent");
    }

    // ---- C06 / C08: rounding helpers -----------------------------------------------------------
    // The contracts themselves (requires / ensures) are attached to the real functions by the injector,
    // see contracts/anchors.json; these harnesses make Kani prove them for every f32.
    #[kani::proof_for_contract(crate::utils::fround2)]
    fn c06_fround2_contract() {
        let v: f32 = kani::any();
        fround2(v);
    }

    #[kani::proof_for_contract(crate::utils::fround3)]
    fn c06_fround3_contract() {
        let v: f32 = kani::any();
        fround3(v);
    }

    // rounding is monotone (needed for "adding resistance never increases U")
    #[kani::proof]
    fn c06_fround2_monotone() {
        let a = any_f32_in(-1.0e5, 1.0e5);
        let b = any_f32_in(-1.0e5, 1.0e5);
        kani::assume(a <= b);
        kani::cover!(true, "precondition satisfiable");
        assert!(fround2(a) <= fround2(b), "C06.fround2.monotone");
    }

    // ---- C13: box algebra ---------------------------------------------------------------------
    use crate::energy::{Bounded, Intersectable, Ray, AABB, BVH};
    use crate::{point, vector};

    fn any_finite() -> f32 {
        let v: f32 = kani::any();
        kani::assume(v.is_finite());
        v
    }

    fn any_box() -> AABB {
        let (x0, y0, z0) = (any_finite(), any_finite(), any_finite());
        let (x1, y1, z1) = (any_finite(), any_finite(), any_finite());
        kani::assume(x0 <= x1 && y0 <= y1 && z0 <= z1);
        AABB::new(point![x0, y0, z0], point![x1, y1, z1])
    }

    fn contains(outer: &AABB, inner: &AABB) -> bool {
        outer.min.x <= inner.min.x
            && outer.min.y <= inner.min.y
            && outer.min.z <= inner.min.z
            && outer.max.x >= inner.max.x
            && outer.max.y >= inner.max.y
            && outer.max.z >= inner.max.z
    }

    #[kani::proof]
    fn c13_aabb_join() {
        let a = any_box();
        let b = any_box();
        kani::cover!(true, "precondition satisfiable");
        let j = a.join(b);
        assert!(contains(&j, &a) && contains(&j, &b), "C13.aabb.join.contains");
        let k = b.join(a);
        assert!(j == k, "C13.aabb.join.commutative");
        // tight: every face of the join is a face of one of the operands
        assert!(j.min.x == a.min.x || j.min.x == b.min.x, "C13.aabb.join.tight");
        assert!(j.max.z == a.max.z || j.max.z == b.max.z, "C13.aabb.join.tight");
        // the empty box is the identity
        let e = AABB::default();
        assert!(e.join(a) == a && a.join(e) == a, "C13.aabb.join.identity");
    }

    fn any_coord() -> f32 {
        // coordinates of buildings: |c| <= 1e4 m
        any_f32_in(-1.0e4, 1.0e4)
    }

    // a ray that hits a box also hits every box that contains it (soundness of parent-box pruning)
    #[kani::proof]
    fn c13_aabb_mono() {
        let a = AABB::new(point![any_coord(), any_coord(), any_coord()], point![any_coord(), any_coord(), any_coord()]);
        let b = AABB::new(point![any_coord(), any_coord(), any_coord()], point![any_coord(), any_coord(), any_coord()]);
        kani::assume(a.min.x <= a.max.x && a.min.y <= a.max.y && a.min.z <= a.max.z);
        kani::assume(b.min.x <= b.max.x && b.min.y <= b.max.y && b.min.z <= b.max.z);
        let d = vector![any_f32_in(-1.0, 1.0), any_f32_in(-1.0, 1.0), any_f32_in(-1.0, 1.0)];
        kani::assume(d.x != 0.0 || d.y != 0.0 || d.z != 0.0);
        let ray = Ray { origin: point![any_coord(), any_coord(), any_coord()], dir: d };
        kani::cover!(true, "precondition satisfiable");
        if a.intersects(&ray).is_some() {
            assert!(a.join(b).intersects(&ray).is_some(), "C13.aabb.mono");
        }
    }

    // ---- C13 / C14: building the acceleration structure on none / one obstacle -------------------
    #[derive(Clone, Copy)]
    struct Obst {
        aabb: AABB,
        hit: bool,
    }
    impl Bounded for Obst {
        fn aabb(&self) -> AABB {
            self.aabb
        }
    }
    impl Intersectable for Obst {
        fn intersects(&self, ray: &Ray) -> Option<f32> {
            let t = self.aabb.intersects(ray)?;
            if self.hit {
                Some(t)
            } else {
                None
            }
        }
    }

    fn any_ray() -> Ray {
        let d = vector![any_f32_in(-1.0, 1.0), any_f32_in(-1.0, 1.0), any_f32_in(-1.0, 1.0)];
        kani::assume(d.x != 0.0 || d.y != 0.0 || d.z != 0.0);
        Ray { origin: point![any_coord(), any_coord(), any_coord()], dir: d }
    }

    #[kani::proof]
    #[kani::unwind(4)]
    fn c13_build_empty() {
        let max: usize = kani::any();
        kani::assume(max == 1 || max == 2 || max == 30);
        let bvh: BVH<Obst> = BVH::build(vec![], max);
        let ray = any_ray();
        assert!(bvh.intersects(&ray).is_none(), "C13.build.empty");
    }

    #[kani::proof]
    #[kani::unwind(4)]
    fn c13_build_single() {
        let max: usize = kani::any();
        kani::assume(max == 1 || max == 2 || max == 30);
        let o = Obst { aabb: any_box(), hit: kani::any() };
        let ray = any_ray();
        let direct = o.intersects(&ray).is_some();
        let bvh = BVH::build(vec![o], max);
        assert!(bvh.intersects(&ray).is_some() == direct, "C13.build.equiv");
    }
}
