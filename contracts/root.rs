// Contracts and proof harnesses for items reachable from the crate root of `bemodel`
// (utils, types::common, types::geometry, opaques). Compiled only under cfg(kani) / cfg(verif_native).
// This file is NOT part of /repo: the injector appends `#[path = ...] mod verif_root;` to a scratch copy of lib.rs.
#![allow(dead_code, unused_imports, non_snake_case, clippy::all)]

#[cfg(kani)]
mod k {
    use crate::utils::{fround2, fround3, normalize};
    use crate::{Orientation, Tilt};

    fn any_f32_in(lo: f32, hi: f32) -> f32 {
        let v: f32 = kani::any();
        kani::assume(v >= lo && v <= hi);
        v
    }

    // ---- C11: classifiers depend only on the angle modulo 360 -------------------------------
    // For all f32 a, b in [-720, 1080] with b - a == 360*k exactly (k in 1..=5, decided in f64 where
    // the subtraction of two f32 is exact): class(a) == class(b).
    fn congruent_pair() -> (f32, f32) {
        let a = any_f32_in(-720.0, 1080.0);
        let b = any_f32_in(-720.0, 1080.0);
        let d = b as f64 - a as f64;
        kani::assume(d == 360.0 || d == 720.0 || d == 1080.0 || d == 1440.0 || d == 1800.0);
        (a, b)
    }

    #[kani::proof]
    fn c11_tilt_mod360() {
        let (a, b) = congruent_pair();
        kani::cover!(true, "precondition satisfiable");
        assert!(Tilt::from(a) == Tilt::from(b), "C11.tilt.mod360");
    }

    #[kani::proof]
    fn c11_orient_mod360() {
        let (a, b) = congruent_pair();
        kani::cover!(true, "precondition satisfiable");
        assert!(Orientation::from(a) == Orientation::from(b), "C11.orient.mod360");
    }

    // Sector table of Tilt::from over one turn (statement C06/C11: floor / wall / roof classes)
    #[kani::proof]
    fn c11_tilt_sectors() {
        let t = any_f32_in(0.0, 360.0);
        kani::cover!(true, "precondition satisfiable");
        let expect = if t <= 60.0 {
            Tilt::TOP
        } else if t < 120.0 {
            Tilt::SIDE
        } else if t < 240.0 {
            Tilt::BOTTOM
        } else if t < 300.0 {
            Tilt::SIDE
        } else {
            Tilt::TOP
        };
        assert!(Tilt::from(t) == expect, "C11.tilt.sectors");
    }

    // The parser (hulc) and the model classify every tilt in [0,360] identically
    #[kani::proof]
    fn c11_tilt_parser_model() {
        let t = any_f32_in(0.0, 360.0);
        kani::cover!(true, "precondition satisfiable");
        let w = hulc::bdl::Wall { tilt: t, ..Default::default() };
        let p = w.position();
        let m = Tilt::from(t);
        let same = matches!(
            (p, m),
            (hulc::bdl::Tilt::TOP, Tilt::TOP) | (hulc::bdl::Tilt::SIDE, Tilt::SIDE) | (hulc::bdl::Tilt::BOTTOM, Tilt::BOTTOM)
        );
        assert!(same, "C11.tilt.parser_model");
    }

    // Compass sectors of Orientation::from (ISO 52016 azimuth: S=0, E=+90, W=-90 == 270), stated on [0,360)
    // where the reduction is the identity; every other angle is covered by c11_orient_mod360.
    // DB-HE sector limits: S +-18, SE/SW 18..69, E/W 69..120, NE/NW 120..157.5, N beyond 157.5.
    #[kani::proof]
    fn c11_orient_sectors() {
        let a = any_f32_in(0.0, 360.0);
        kani::assume(a < 360.0);
        kani::cover!(true, "precondition satisfiable");
        let expect = if a < 18.0 {
            Orientation::S
        } else if a < 69.0 {
            Orientation::SE
        } else if a < 120.0 {
            Orientation::E
        } else if a < 157.5 {
            Orientation::NE
        } else if a < 202.5 {
            Orientation::N
        } else if a < 240.0 {
            Orientation::NW
        } else if a < 291.0 {
            Orientation::W
        } else if a < 342.0 {
            Orientation::SW
        } else {
            Orientation::S
        };
        assert!(Orientation::from(a) == expect, "C11.orient.sectors");
    }

    #[kani::proof]
    fn c11_normalize_range() {
        let v = any_f32_in(-1080.0, 1080.0);
        kani::cover!(true, "precondition satisfiable");
        let r = normalize(v, 0.0, 360.0);
        // (a negative denormal input survives the reduction unchanged: the lower bound is -f32::MIN_POSITIVE)
        assert!(r >= -1.0e-37 && r <= 360.0, "C11.normalize.range");
        // congruent to v modulo 360 (within float error of the reduction)
        let d = (r as f64 - v as f64) / 360.0;
        let k = d.round();
        assert!((d - k).abs() <= 1.0e-6, "C11.normalize.congruent");
    }
}
