// Contracts and proof harnesses for items reachable from the crate root of `bemodel`
// (utils, types::common, types::geometry, opaques). Compiled only under cfg(kani) / cfg(verif_native).
// This file is NOT part of /repo: the injector appends `#[path = ...] mod verif_root;` to a scratch copy of lib.rs.
#![allow(dead_code, unused_imports, non_snake_case, clippy::all)]

/// Hash of every source file of the scratch copy (see engine/common.py): makes cargo rebuild this crate whenever any source changed.
pub const VERIF_SRC_HASH: Option<&str> = option_env!("VERIF_SRC_HASH");

#[cfg(verif_native)]
#[path = "support.rs"]
pub mod support;

#[cfg(kani)]
mod k {
    use crate::utils::{fround2, fround3, normalize};
    use crate::{Orientation, Tilt};

    fn any_f32_in(lo: f32, hi: f32) -> f32 {
        let v: f32 = kani::any();
        kani::assume(v >= lo && v <= hi);
        v
    }

    // ---- C11: classifiers depend only on the angle modulo 360 -------------------------------
    // For all f32 a, b in [-720, 1080] with b - a == 360*k exactly (k in 1..=5, decided in f64 where
    // the subtraction of two f32 is exact): class(a) == class(b).
    fn congruent_pair() -> (f32, f32) {
        let a = any_f32_in(-720.0, 1080.0);
        let b = any_f32_in(-720.0, 1080.0);
        let d = b as f64 - a as f64;
        kani::assume(d == 360.0 || d == 720.0 || d == 1080.0 || d == 1440.0 || d == 1800.0);
        (a, b)
    }

    #[kani::proof]
    fn c11_tilt_mod360() {
        let (a, b) = congruent_pair();
        kani::cover!(true, "precondition satisfiable");
        assert!(Tilt::from(a) == Tilt::from(b), "C11.tilt.mod360");
    }

    #[kani::proof]
    fn c11_orient_mod360() {
        let (a, b) = congruent_pair();
        kani::cover!(true, "precondition satisfiable");
        assert!(Orientation::from(a) == Orientation::from(b), "C11.orient.mod360");
    }

    // Sector table of Tilt::from over one turn (statement C06/C11: floor / wall / roof classes)
    #[kani::proof]
    fn c11_tilt_sectors() {
        let t = any_f32_in(0.0, 360.0);
        kani::cover!(true, "precondition satisfiable");
        let expect = if t <= 60.0 {
            Tilt::TOP
        } else if t < 120.0 {
            Tilt::SIDE
        } else if t < 240.0 {
            Tilt::BOTTOM
        } else if t < 300.0 {
            Tilt::SIDE
        } else {
            Tilt::TOP
        };
        assert!(Tilt::from(t) == expect, "C11.tilt.sectors");
    }

    // The parser (hulc) and the model classify every tilt in [0,360] identically
    #[kani::proof]
    fn c11_tilt_parser_model() {
        let t = any_f32_in(0.0, 360.0);
        kani::cover!(true, "precondition satisfiable");
        let w = hulc::bdl::Wall { tilt: t, ..Default::default() };
        let p = w.position();
        let m = Tilt::from(t);
        let same = matches!(
            (p, m),
            (hulc::bdl::Tilt::TOP, Tilt::TOP) | (hulc::bdl::Tilt::SIDE, Tilt::SIDE) | (hulc::bdl::Tilt::BOTTOM, Tilt::BOTTOM)
        );
        assert!(same, "C11.tilt.parser_model");
    }

    // Compass sectors of Orientation::from (ISO 52016 azimuth: S=0, E=+90, W=-90 == 270), stated on [0,360)
    // where the reduction is the identity; every other angle is covered by c11_orient_mod360.
    // DB-HE sector limits: S +-18, SE/SW 18..69, E/W 69..120, NE/NW 120..157.5, N beyond 157.5.
    #[kani::proof]
    fn c11_orient_sectors() {
        let a = any_f32_in(0.0, 360.0);
        kani::assume(a < 360.0);
        kani::cover!(true, "precondition satisfiable");
        let expect = if a < 18.0 {
            Orientation::S
        } else if a < 69.0 {
            Orientation::SE
        } else if a < 120.0 {
            Orientation::E
        } else if a < 157.5 {
            Orientation::NE
        } else if a < 202.5 {
            Orientation::N
        } else if a < 240.0 {
            Orientation::NW
        } else if a < 291.0 {
            Orientation::W
        } else if a < 342.0 {
            Orientation::SW
        } else {
            Orientation::S
        };
        assert!(Orientation::from(a) == expect, "C11.orient.sectors");
    }

    #[kani::proof]
    fn c11_normalize_range() {
        let v = any_f32_in(-1080.0, 1080.0);
        kani::cover!(true, "precondition satisfiable");
        let r = normalize(v, 0.0, 360.0);
        // (a negative denormal input survives the reduction unchanged: the lower bound is -f32::MIN_POSITIVE)
        assert!(r >= -1.0e-37 && r <= 360.0, "C11.normalize.range");
        // congruent to v modulo 360 (within float error of the reduction)
        let d = (r as f64 - v as f64) / 360.0;
        let k = d.round();
        assert!((d - k).abs() <= 1.0e-6, "C11.normalize.congruent");
    }

    // (a Kani proof of the length clause of checks::check for every f32 was tried: one bridge, empty model, format!
    //  stubbed - no answer in 400 s because of the four HashSet<Uuid> the function builds first; the clause stays with
    //  the bounded obligation C15.check)

    // ---- C19 / C14: the angle helpers are total: every f32 (inf, NaN, 1e39 read from a damaged file) gives a value,
    // no panic and no loop (an unwinding assertion fails if a loop appears)
    #[kani::proof]
    #[kani::unwind(2)]
    fn c19_angle_helpers_total() {
        let v: f32 = kani::any();
        kani::cover!(v.is_infinite(), "infinite input reachable");
        let r = normalize(v, 0.0, 360.0);
        if v.is_finite() && v.abs() <= 1.0e6 {
            assert!(r >= -1.0e-37 && r <= 360.0, "C19.normalize.range_for_moderate_values");
        }
        let a = crate::convert::from_ctehexml::normalize_azimuth(v);
        let b = crate::convert::from_ctehexml::orientation_bdl_to_52016(v);
        let _ = (Tilt::from(v), Orientation::from(v), a, b);
    }

    // (a Kani proof of SchedulesDb::get_year_as_day_sch on a small shape - one week [(d0,a),(d1,7-a)], two periods of
    //  at most 4 days, symbolic counts - was tried: no answer in 1200 s (flat_map / cycle / skip / take over Vec<Uuid>);
    //  the weekday alignment stays with the bounded obligation C17.year)

    // ---- C04: a field may be left out of the JSON only when it holds the value it gets back on loading ---------
    // (the serde helper pairs skip_serializing_if / default of bemodel::utils, for every f32 / bool)
    #[kani::proof]
    fn c04_skip_default_pairs() {
        use crate::utils::{default_1, default_true, is_default, is_true, multiplier_is_1};
        let m: f32 = kani::any();
        kani::cover!(multiplier_is_1(&m), "a skipped multiplier exists");
        if multiplier_is_1(&m) {
            assert!(m == default_1(), "C04.skip.multiplier_loads_back");
        }
        assert!(multiplier_is_1(&default_1()), "C04.skip.multiplier_default_is_skipped");
        let b: bool = kani::any();
        if is_true(&b) {
            assert!(b == default_true(), "C04.skip.flag_loads_back");
        }
        assert!(is_true(&default_true()), "C04.skip.flag_default_is_skipped");
        let x: f32 = kani::any();
        if is_default(&x) {
            assert!(x == f32::default(), "C04.skip.number_loads_back");
        } else {
            assert!(x != 0.0 || x.is_nan(), "C04.skip.number_kept_when_different");
        }
        let k: u8 = kani::any();
        let kind = match k % 3 { 0 => crate::SpaceType::CONDITIONED, 1 => crate::SpaceType::UNCONDITIONED, _ => crate::SpaceType::UNINHABITED };
        if is_default(&kind) {
            assert!(kind == crate::SpaceType::default(), "C04.skip.kind_loads_back");
        }
    }

    // ---- C06 / C08: rounding helpers -----------------------------------------------------------
    // The contracts themselves (requires / ensures) are attached to the real functions by the injector,
    // see contracts/anchors.json; these harnesses make Kani prove them for every f32.
    #[kani::proof_for_contract(crate::utils::fround2)]
    fn c06_fround2_contract() {
        let v: f32 = kani::any();
        fround2(v);
    }

    #[kani::proof_for_contract(crate::utils::fround3)]
    fn c06_fround3_contract() {
        let v: f32 = kani::any();
        fround3(v);
    }

    // rounding is monotone (needed for "adding resistance never increases U")
    #[kani::proof]
    fn c06_fround2_monotone() {
        let a = any_f32_in(-1.0e5, 1.0e5);
        let b = any_f32_in(-1.0e5, 1.0e5);
        kani::assume(a <= b);
        kani::cover!(true, "precondition satisfiable");
        assert!(fround2(a) <= fround2(b), "C06.fround2.monotone");
    }

    // ---- C13: box algebra ---------------------------------------------------------------------
    use crate::energy::{Bounded, Intersectable, Ray, AABB, BVH};
    use crate::{point, vector};

    fn any_finite() -> f32 {
        let v: f32 = kani::any();
        kani::assume(v.is_finite());
        v
    }

    fn any_box() -> AABB {
        let (x0, y0, z0) = (any_finite(), any_finite(), any_finite());
        let (x1, y1, z1) = (any_finite(), any_finite(), any_finite());
        kani::assume(x0 <= x1 && y0 <= y1 && z0 <= z1);
        AABB::new(point![x0, y0, z0], point![x1, y1, z1])
    }

    fn contains(outer: &AABB, inner: &AABB) -> bool {
        outer.min.x <= inner.min.x
            && outer.min.y <= inner.min.y
            && outer.min.z <= inner.min.z
            && outer.max.x >= inner.max.x
            && outer.max.y >= inner.max.y
            && outer.max.z >= inner.max.z
    }

    #[kani::proof]
    fn c13_aabb_join() {
        let a = any_box();
        let b = any_box();
        kani::cover!(true, "precondition satisfiable");
        let j = a.join(b);
        assert!(contains(&j, &a) && contains(&j, &b), "C13.aabb.join.contains");
        let k = b.join(a);
        assert!(j == k, "C13.aabb.join.commutative");
        // tight: every face of the join is a face of one of the operands
        assert!(j.min.x == a.min.x || j.min.x == b.min.x, "C13.aabb.join.tight");
        assert!(j.max.z == a.max.z || j.max.z == b.max.z, "C13.aabb.join.tight");
        // the empty box is the identity
        let e = AABB::default();
        assert!(e.join(a) == a && a.join(e) == a, "C13.aabb.join.identity");
    }

    fn any_coord() -> f32 {
        // coordinates of buildings: |c| <= 1e4 m
        any_f32_in(-1.0e4, 1.0e4)
    }

    // (A lemma "a ray that hits a box hits every enclosing box" was attempted twice: with 18 symbolic floats, and one
    //  axis at a time on the real AABB::intersects with the other two slabs unbounded. Neither returned from CBMC within
    //  3000 s (float multiplications by a symbolic reciprocal). The bounded obligations C13.bvh.equiv / C13.bvh.many
    //  check the consequence on the real tree instead; see DESIGN.md.)

    // ---- C10 / C11: classes of an element (wall) ---------------------------------------------------
    fn wall_with(tilt: f32, azimuth: f32) -> crate::Wall {
        crate::Wall {
            id: crate::Uuid::nil(),
            name: String::new(),
            bounds: crate::BoundaryType::EXTERIOR,
            cons: crate::Uuid::nil(),
            space: crate::Uuid::nil(),
            next_to: None,
            geometry: crate::WallGeom { tilt, azimuth, position: None, polygon: vec![] },
        }
    }

    // an element is classed horizontal (skylight / floor) unless its tilt class is SIDE, where the compass class of
    // its azimuth applies
    #[kani::proof]
    fn c10_orientation_of_wall() {
        let tilt = any_f32_in(0.0, 360.0);
        let az = any_f32_in(-180.0, 180.0);
        kani::cover!(true, "precondition satisfiable");
        let w = wall_with(tilt, az);
        let o = Orientation::from(&w);
        let t = Tilt::from(&w);
        assert!(t == Tilt::from(tilt), "C10.wall.tilt_class");
        if t == Tilt::SIDE {
            assert!(o == Orientation::from(az), "C10.wall.side_uses_azimuth");
        } else {
            assert!(o == Orientation::HZ, "C10.wall.horizontal");
        }
    }

    // ---- C11: polygon area on integer coordinates is the exact shoelace value -------------------------
    use crate::types::HasSurface;

    fn any_grid() -> (i32, f32) {
        let v: i8 = kani::any();
        kani::assume(v >= -100 && v <= 100);
        (v as i32, v as f32)
    }

    // (a Kani proof of the exact shoelace value for every integer triangle was tried: no answer in 50 minutes;
    //  six int->float conversions and six float multiplications; the bounded obligation C11.poly stands in)

    #[kani::proof]
    #[kani::unwind(4)]
    fn c11_poly_degenerate() {
        let (_, fx0) = any_grid();
        let (_, fy0) = any_grid();
        let p0: crate::Polygon = vec![];
        let p1: crate::Polygon = vec![point![fx0, fy0]];
        assert!(p0.area() == 0.0 && p1.area() == 0.0, "C11.poly.area.fewer_than_two");
        assert!(p0.perimeter() == 0.0 && p1.perimeter() == 0.0, "C11.poly.perimeter.fewer_than_two");
    }

    // ---- C13: slab test of the box on integer data -----------------------------------------------------
    // For boxes with integer corners and rays with integer origins and direction components in {-1,-0.0,+0.0,1} (un-normalised
    // Ray, so every product is exact), AABB::intersects is Some exactly when the exact slab test succeeds
    // (grazing rays - parallel to a face and starting in its plane, or touching only an edge - excluded).
    fn any_small() -> (i32, f32) {
        let v: i8 = kani::any();
        kani::assume(v >= -20 && v <= 20);
        (v as i32, v as f32)
    }

    fn any_dir() -> (i32, f32) {
        let v: i8 = kani::any();
        kani::assume(v >= -1 && v <= 1);
        // a zero component comes with either sign (-0.0 is what negating an axis-parallel direction gives)
        let negative_zero: bool = kani::any();
        (v as i32, if v == 0 && negative_zero { -0.0f32 } else { v as f32 })
    }

    #[kani::proof]
    fn c13_aabb_slab_exact() {
        let (lx, flx) = any_small();
        let (ly, fly) = any_small();
        let (lz, flz) = any_small();
        let (hx, fhx) = any_small();
        let (hy, fhy) = any_small();
        let (hz, fhz) = any_small();
        kani::assume(lx < hx && ly < hy && lz < hz);
        let (ox, fox) = any_small();
        let (oy, foy) = any_small();
        let (oz, foz) = any_small();
        let (dx, fdx) = any_dir();
        let (dy, fdy) = any_dir();
        let (dz, fdz) = any_dir();
        kani::assume(dx != 0 || dy != 0 || dz != 0);
        // exact slab test with integer arithmetic (t scaled by 1: directions are -1, 0, 1)
        let mut tmin: i32 = -1000;
        let mut tmax: i32 = 1000;
        let mut miss = false;
        let mut grazing = false;
        let lo = [lx, ly, lz];
        let hi = [hx, hy, hz];
        let o = [ox, oy, oz];
        let d = [dx, dy, dz];
        let mut k = 0;
        while k < 3 {
            if d[k] == 0 {
                if o[k] < lo[k] || o[k] > hi[k] {
                    miss = true;
                }
                if o[k] == lo[k] || o[k] == hi[k] {
                    grazing = true;
                }
            } else {
                let t1 = (lo[k] - o[k]) * d[k];
                let t2 = (hi[k] - o[k]) * d[k];
                let (a, b) = if t1 < t2 { (t1, t2) } else { (t2, t1) };
                if a > tmin {
                    tmin = a;
                }
                if b < tmax {
                    tmax = b;
                }
            }
            k += 1;
        }
        kani::assume(!grazing);
        kani::assume(miss || tmin != tmax);
        let want = !miss && tmax >= 0 && tmin <= tmax;
        kani::cover!(want, "hit reachable");
        kani::cover!(!want, "miss reachable");
        let b = AABB::new(point![flx, fly, flz], point![fhx, fhy, fhz]);
        let ray = Ray { origin: point![fox, foy, foz], dir: vector![fdx, fdy, fdz] };
        assert!(b.intersects(&ray).is_some() == want, "C13.aabb.slab.exact");
    }
}

// =====================================================================================================
// Model builders shared by the native obligations
// =====================================================================================================
#[cfg(verif_native)]
pub mod mk {
    use crate::*;

    pub fn uid(n: u128) -> Uuid {
        Uuid::from_u128(n)
    }

    pub fn rect(w: f32, h: f32) -> Polygon {
        vec![point![0.0, 0.0], point![w, 0.0], point![w, h], point![0.0, h]]
    }

    pub fn space(id: u128, inside: bool, kind: SpaceType, mult: f32, height: f32) -> Space {
        Space {
            id: uid(id),
            name: format!("S{:x}", id),
            multiplier: mult,
            kind,
            inside_tenv: inside,
            height,
            z: 0.0,
            loads: None,
            thermostat: None,
            n_v: None,
            illuminance: None,
        }
    }

    pub fn wall(id: u128, bounds: BoundaryType, space: Uuid, next_to: Option<Uuid>, cons: Uuid, tilt: f32, azimuth: f32, polygon: Polygon, position: Option<Point3>) -> Wall {
        Wall { id: uid(id), name: format!("W{:x}", id), bounds, cons, space, next_to, geometry: WallGeom { tilt, azimuth, position, polygon } }
    }

    pub fn window(id: u128, wall: Uuid, cons: Uuid, w: f32, h: f32, position: Option<Point2>, setback: f32) -> Window {
        Window { id: uid(id), name: format!("H{:x}", id), cons, wall, geometry: WinGeom { position, height: h, width: w, setback } }
    }

    pub fn material(id: u128, conductivity: f32) -> Material {
        Material { id: uid(id), name: format!("M{:x}", id), properties: MatProps::Detailed { conductivity, density: 1000.0, specific_heat: 1000.0, vapour_diff: None } }
    }

    pub fn material_r(id: u128, resistance: f32) -> Material {
        Material { id: uid(id), name: format!("M{:x}", id), properties: MatProps::Resistance { resistance, vapour_diff: None } }
    }

    pub fn wallcons(id: u128, layers: &[(u128, f32)]) -> WallCons {
        WallCons { id: uid(id), name: format!("C{:x}", id), layers: layers.iter().map(|(m, e)| Layer { material: uid(*m), e: *e }).collect(), absorptance: 0.6 }
    }

    pub fn wincons(id: u128, glass: Uuid, frame: Uuid) -> WinCons {
        WinCons { id: uid(id), name: format!("X{:x}", id), glass, frame, f_f: 0.25, delta_u: 10.0, g_glshwi: None, c_100: 27.0 }
    }

    pub fn glass(id: u128) -> Glass {
        Glass { id: uid(id), name: format!("G{:x}", id), u_value: 1.4, g_gln: 0.6 }
    }

    pub fn frame(id: u128) -> Frame {
        Frame { id: uid(id), name: format!("F{:x}", id), u_value: 2.2, absorptivity: 0.6 }
    }

    pub fn bridge(id: u128, kind: ThermalBridgeKind, l: f32, psi: f32) -> ThermalBridge {
        ThermalBridge { id: uid(id), name: format!("B{:x}", id), kind, l, psi }
    }

    pub fn empty_model() -> Model {
        let mut m = Model::default();
        m.meta.name = "verif".to_string();
        m
    }
}

// =====================================================================================================
// Native bounded obligations
// =====================================================================================================
#[cfg(verif_native)]
mod n {
    use super::mk::*;
    use super::support::*;
    use crate::types::HasSurface;
    use crate::utils::fround2;
    use crate::*;
    use std::collections::BTreeMap;

    // ---- C11: polygon area / perimeter --------------------------------------------------------------
    fn shoelace(v: &[(i64, i64)]) -> f64 {
        let n = v.len();
        if n < 2 {
            return 0.0;
        }
        let mut s: i64 = 0;
        for i in 0..n {
            let (x0, y0) = v[i];
            let (x1, y1) = v[(i + 1) % n];
            s += x0 * y1 - y0 * x1;
        }
        (s as f64).abs() / 2.0
    }

    fn perim(v: &[(i64, i64)]) -> f64 {
        let n = v.len();
        if n < 2 {
            return 0.0;
        }
        (0..n).map(|i| {
            let (x0, y0) = v[i];
            let (x1, y1) = v[(i + 1) % n];
            (((x1 - x0).pow(2) + (y1 - y0).pow(2)) as f64).sqrt()
        }).sum()
    }

    #[test]
    fn n_c11_poly() {
        drive(
            "C11.poly",
            "Polygon::area / perimeter: every vertex list of length 0..4 (0..5 thorough) on the 4x4 integer grid; scale factors {0.25,0.5,2,4}; cyclic shifts and reversal",
            |c| {
                let maxn = if c.tier_thorough { 6 } else { 5 };
                let n = c.pick(maxn);
                let mut v: Vec<(i64, i64)> = vec![];
                for _ in 0..n {
                    let k = c.pick(16);
                    v.push(((k % 4) as i64, (k / 4) as i64));
                }
                c.note(format!("{:?}", v));
                let poly: Polygon = v.iter().map(|(x, y)| point![*x as f32, *y as f32]).collect();
                let a = poly.area();
                let p = poly.perimeter();
                c.check("C11.poly.area", a as f64 == shoelace(&v), || format!("area {} want {}", a, shoelace(&v)));
                c.check("C11.poly.perimeter", approx64(p, perim(&v), 1e-6, 1e-6), || format!("perimeter {} want {}", p, perim(&v)));
                c.check("C11.poly.nonneg", a >= 0.0 && p >= 0.0, || format!("area {} perimeter {}", a, p));
                if n >= 1 {
                    let mut sh = poly.clone();
                    sh.rotate_left(1);
                    c.check("C11.poly.shift_invariant", sh.area() == a && approx(sh.perimeter(), p, 1e-6, 1e-6), || format!("shifted area {} vs {}", sh.area(), a));
                    let mut rv = poly.clone();
                    rv.reverse();
                    c.check("C11.poly.reversal_invariant", rv.area() == a && approx(rv.perimeter(), p, 1e-6, 1e-6), || format!("reversed area {} vs {}", rv.area(), a));
                }
                for s in [0.25f32, 0.5, 2.0, 4.0] {
                    let sc: Polygon = poly.iter().map(|q| point![q.x * s, q.y * s]).collect();
                    c.check("C11.poly.scale_area", sc.area() == a * s * s, || format!("scale {}: area {} want {}", s, sc.area(), a * s * s));
                    c.check("C11.poly.scale_perimeter", approx(sc.perimeter(), p * s, 1e-6, 1e-6), || format!("scale {}: perimeter {} want {}", s, sc.perimeter(), p * s));
                }
                if a > 0.0 {
                    c.nontrivial(format!("{:?}", v));
                }
                c.sample(|| format!("{:?} -> area {} perimeter {}", v, a, p));
            },
        );
    }

    // polygons with more corners (L, U, staircase, 12-gon), both windings and every start vertex: exact integer areas
    #[test]
    fn n_c11_poly_large() {
        drive("C11.poly.large", "Polygon::area / perimeter: 5 rectilinear / convex polygons with 6..12 corners x both windings x every start vertex x scale {0.5,1,2}", |c| {
            let polys: Vec<Vec<(i64, i64)>> = vec![
                vec![(0, 0), (6, 0), (6, 2), (2, 2), (2, 5), (0, 5)],
                vec![(0, 0), (8, 0), (8, 6), (6, 6), (6, 2), (2, 2), (2, 6), (0, 6)],
                vec![(0, 0), (4, 0), (4, 1), (3, 1), (3, 2), (2, 2), (2, 3), (1, 3), (1, 4), (0, 4)],
                vec![(2, 0), (4, 0), (6, 1), (7, 3), (7, 5), (6, 7), (4, 8), (2, 8), (0, 7), (-1, 5), (-1, 3), (0, 1)],
                vec![(0, 0), (3, 0), (5, 2), (5, 5), (2, 7), (-1, 5), (-2, 2)],
            ];
            let k = c.pick(polys.len());
            let mut v = polys[k].clone();
            if c.flag() {
                v.reverse();
            }
            let shift = c.pick(v.len());
            v.rotate_left(shift);
            let sc = c.of(&[0.5f32, 1.0, 2.0]);
            c.note(format!("polygon #{} ({} corners) start {} scale {}", k, v.len(), shift, sc));
            let poly: Polygon = v.iter().map(|(x, y)| point![*x as f32 * sc, *y as f32 * sc]).collect();
            let (a, p) = (poly.area(), poly.perimeter());
            c.check("C11.poly.area", a as f64 == shoelace(&v) * (sc as f64) * (sc as f64), || format!("area {} want {}", a, shoelace(&v) * (sc * sc) as f64));
            c.check("C11.poly.perimeter", approx64(p, perim(&v) * sc as f64, 1e-6, 1e-5), || format!("perimeter {} want {}", p, perim(&v) * sc as f64));
            c.nontrivial(format!("{} {} {}", k, shift, sc));
            c.sample(|| format!("polygon #{} -> area {} perimeter {}", k, a, p));
        });
    }

    // ---- C11 / C08 / C09: EnergyProps::from(&Model) ----------------------------------------------------
    const KINDS3: [SpaceType; 3] = [SpaceType::CONDITIONED, SpaceType::UNCONDITIONED, SpaceType::UNINHABITED];
    const BOUNDS: [BoundaryType; 4] = [BoundaryType::EXTERIOR, BoundaryType::GROUND, BoundaryType::INTERIOR, BoundaryType::ADIABATIC];

    /// Two storeys: s0 (floor 4x5, roof with a 0.3 m construction), s1 (floor 3x5, no covering element).
    /// One extra wall `w` with enumerated boundary / space / adjacent space, carrying one window.
    fn two_space_model(c: &mut Ctx) -> (Model, String) {
        let mut m = empty_model();
        let in0 = c.flag();
        let k0 = c.of(&KINDS3);
        let m0 = c.of(&[1.0f32, 2.0]);
        let in1 = c.flag();
        let k1 = c.of(&KINDS3);
        let m1 = c.of(&[1.0f32, 3.0]);
        let b = c.of(&BOUNDS);
        let sp = c.pick(3);
        let nx = c.pick(4);
        let vent = c.of(&[None, Some(30.0f32)]);
        let newb = c.flag();
        m.meta.global_ventilation_l_s = vent;
        m.meta.is_new_building = newb;
        m.spaces.push(space(0xA0, in0, k0, m0, 3.0));
        m.spaces.push(space(0xA1, in1, k1, m1, 2.5));
        m.cons.materials.push(material(0xE0, 0.5));
        m.cons.wallcons.push(wallcons(0xC0, &[(0xE0, 0.3)]));
        m.cons.glasses.push(glass(0xF0));
        m.cons.frames.push(frame(0xF1));
        m.cons.wincons.push(wincons(0xD0, uid(0xF0), uid(0xF1)));
        // floors
        m.walls.push(wall(1, BoundaryType::GROUND, uid(0xA0), None, uid(0xC0), 180.0, 0.0, rect(4.0, 5.0), None));
        m.walls.push(wall(2, BoundaryType::GROUND, uid(0xA1), None, uid(0xC0), 180.0, 0.0, rect(3.0, 5.0), None));
        // roof over s0
        m.walls.push(wall(3, BoundaryType::EXTERIOR, uid(0xA0), None, uid(0xC0), 0.0, 0.0, rect(4.0, 5.0), None));
        let sid = [uid(0xA0), uid(0xA1), uid(0x9999)][sp];
        let nid = [None, Some(uid(0xA0)), Some(uid(0xA1)), Some(uid(0x9998))][nx];
        m.walls.push(wall(4, b, sid, nid, uid(0xC0), 90.0, 0.0, rect(4.0, 3.0), None));
        m.windows.push(window(0x11, uid(4), uid(0xD0), 1.0, 1.5, None, 0.0));
        m.windows.push(window(0x12, uid(4), uid(0xD0), 0.5, 1.0, None, 0.0));
        m.windows.push(window(0x13, uid(0x7777), uid(0xD0), 2.0, 1.0, None, 0.0));
        m.overrides.walls.insert(uid(4), WallPropsOverrides { u_value: Some(0.77) });
        m.overrides.windows.insert(uid(0x12), WinPropsOverrides { u_value: None, f_shobst: Some(0.9) });
        m.overrides.windows.insert(uid(0x11), WinPropsOverrides { u_value: Some(1.23), f_shobst: Some(0.45) });
        // ... and a window whose override entry fixes the U-value alone: its shading factor stays the computed one
        m.windows.push(window(0x14, uid(4), uid(0xD0), 0.75, 1.0, None, 0.0));
        m.overrides.windows.insert(uid(0x14), WinPropsOverrides { u_value: Some(2.1), f_shobst: None });
        let d = format!("s0(in={},{:?},x{}) s1(in={},{:?},x{}) w4({:?}, space#{}, next#{}) vent={:?} new={}", in0, k0, m0, in1, k1, m1, b, sp, nx, vent, newb);
        (m, d)
    }

    #[test]
    fn n_c11_props_model() {
        drive(
            "C11.props",
            "EnergyProps::from(&Model): 2 spaces each over in/out x 3 kinds x multiplier; 3 fixed floor/roof elements; 1 wall over 4 boundary kinds x own space {s0,s1,dangling} x adjacent {none,s0,s1,dangling} with 1 window and overrides; ventilation {none,30 l/s}; new/existing",
            |c| {
                let (m, d) = two_space_model(c);
                c.note(d.clone());
                let p = energy::EnergyProps::from(&m);
                let g = &p.global;
                let s = |i: usize| &m.spaces[i];
                let area = [20.0f64, 15.0];
                let hnet = [3.0f64 - 0.3, 2.5];
                let hgross = [3.0f64, 2.5];
                // spaces
                for i in 0..2 {
                    let sp = &p.spaces[&s(i).id];
                    c.check("C11.space.area", approx64(sp.area, area[i], 1e-6, 1e-6), || format!("space {} area {} want {}", i, sp.area, area[i]));
                    c.check("C11.space.height_net", approx64(sp.height_net, hnet[i], 1e-6, 1e-6), || format!("space {} height_net {} want {}", i, sp.height_net, hnet[i]));
                    c.check("C11.space.volume_net", approx64(sp.volume_net, area[i] * hnet[i], 1e-5, 1e-5), || format!("space {} volume_net {}", i, sp.volume_net));
                }
                // reference area and volumes (with multipliers)
                let mut a_ref = 0.0;
                let mut vg = 0.0;
                let mut vn = 0.0;
                let mut vinh = 0.0;
                for i in 0..2 {
                    let mu = s(i).multiplier as f64;
                    if s(i).inside_tenv {
                        vg += area[i] * hgross[i] * mu;
                        vn += area[i] * hnet[i] * mu;
                        if s(i).kind != SpaceType::UNINHABITED {
                            a_ref += area[i] * mu;
                            vinh += area[i] * hnet[i] * mu;
                        }
                    }
                }
                c.check("C11.a_ref", approx64(g.a_ref, a_ref, 1e-5, 0.006), || format!("a_ref {} want {}", g.a_ref, a_ref));
                c.check("C11.vol_gross", approx64(g.vol_env_gross, vg, 1e-5, 0.006), || format!("vol_env_gross {} want {}", g.vol_env_gross, vg));
                c.check("C11.vol_net", approx64(g.vol_env_net, vn, 1e-5, 0.006), || format!("vol_env_net {} want {}", g.vol_env_net, vn));
                c.check("C11.indicators_echo", {
                    let ind = m.energy_indicators();
                    ind.area_ref == g.a_ref && ind.vol_env_net == g.vol_env_net && ind.vol_env_gross == g.vol_env_gross && ind.compactness == g.compactness
                }, || "EnergyIndicators top-level figures differ from props.global".to_string());
                // envelope membership of every wall
                let inside = |id: Uuid| m.spaces.iter().find(|x| x.id == id).map_or(false, |x| x.inside_tenv);
                let mut exposed = 0.0f64;
                for w in &m.walls {
                    let own = inside(w.space);
                    let next = w.next_to.map_or(false, inside);
                    let want = match w.bounds {
                        BoundaryType::INTERIOR => own != next,
                        _ => own,
                    };
                    let wp = &p.walls[&w.id];
                    c.check("C11.tenv", wp.is_tenv == want, || format!("wall {} is_tenv {} want {}", w.name, wp.is_tenv, want));
                    let mult = m.spaces.iter().find(|x| x.id == w.space).map_or(1.0, |x| x.multiplier);
                    c.check("C08.multiplier", wp.multiplier == mult, || format!("wall {} multiplier {} want {}", w.name, wp.multiplier, mult));
                    let win_a: f32 = m.windows.iter().filter(|x| x.wall == w.id).map(|x| x.geometry.width * x.geometry.height).sum();
                    c.check("C08.area_net", approx(wp.area_net, w.geometry.polygon.area() - win_a, 1e-6, 0.0051), || format!("wall {} area_net {} gross {} windows {}", w.name, wp.area_net, wp.area_gross, win_a));
                    c.check("C08.override", wp.u_value_override == m.overrides.walls.get(&w.id).and_then(|o| o.u_value), || format!("wall {} override {:?}", w.name, wp.u_value_override));
                    c.check("C08.u_value_is_walls", wp.u_value == w.u_value(&m), || format!("wall {} u_value {:?} vs Wall::u_value {:?}", w.name, wp.u_value, w.u_value(&m)));
                    if want && (w.bounds == BoundaryType::EXTERIOR || w.bounds == BoundaryType::GROUND) {
                        exposed += w.geometry.polygon.area() as f64 * mult as f64;
                    }
                }
                let comp = if exposed == 0.0 { 0.0 } else { vg / exposed };
                c.check("C11.compactness", approx64(g.compactness, comp, 1e-4, 1e-4), || format!("compactness {} want {} (V {} / A {})", g.compactness, comp, vg, exposed));
                // windows inherit envelope membership, boundary and multiplier from their wall
                for w in &m.windows {
                    let wp = &p.windows[&w.id];
                    match p.walls.get(&w.wall) {
                        Some(host) => c.check("C08.window.inherits", wp.is_tenv == host.is_tenv && wp.multiplier == host.multiplier && wp.bounds == host.bounds && wp.orientation == host.orientation && wp.tilt == host.tilt, || format!("window {}: {:?}", w.name, wp)),
                        // a window whose wall is missing belongs to no envelope element
                        None => c.check("C08.window.without_wall", !wp.is_tenv && wp.multiplier == 1.0, || format!("window {} without wall: {:?}", w.name, wp)),
                    }
                    let ov = m.overrides.windows.get(&w.id);
                    c.check("C08.window.override", wp.u_value_override == ov.and_then(|o| o.u_value) && wp.f_shobst_override == ov.and_then(|o| o.f_shobst), || format!("window {} overrides {:?} {:?}", w.name, wp.u_value_override, wp.f_shobst_override));
                    let wc = m.cons.wincons.iter().find(|x| x.id == w.cons).unwrap();
                    c.check("C08.window.u", wp.u_value == wc.u_value(&m.cons), || format!("window u {:?}", wp.u_value));
                    c.check("C11.window.area", wp.area == w.geometry.width * w.geometry.height, || format!("window area {}", wp.area));
                }
                // the indicators see the three windows of wall 4 (and never the window without wall)
                {
                    let ind_k = m.energy_indicators().K_data;
                    let w4 = &p.walls[&uid(4)];
                    let counted = w4.is_tenv && (w4.bounds == BoundaryType::EXTERIOR || w4.bounds == BoundaryType::GROUND);
                    let on_wall4: f64 = m.windows.iter().filter(|w| w.wall == uid(4)).map(|w| (w.geometry.width * w.geometry.height) as f64).sum();
                    let want = if counted { on_wall4 * w4.multiplier as f64 } else { 0.0 };
                    c.check("C08.windows_of_wall", approx64(ind_k.windows.a, want, 1e-5, 1e-5), || format!("window area in K {} want {}", ind_k.windows.a, want));
                }
                // ventilation rate reported with the indicators is the one used inside the U-value calculation
                let used = m.global_ventilation_rate();
                // (with a building flow but no habitable volume inside the envelope both are l/s divided by +-0: not finite, and
                //  equally meaningless; only finite values are compared)
                c.check("C11.ventilation", g.global_ventilation_rate == used || (!g.global_ventilation_rate.is_finite() && !used.is_finite()), || format!("reported {} but U-value calculation uses {}", g.global_ventilation_rate, used));
                if let Some(l_s) = m.meta.global_ventilation_l_s {
                    if vinh > 0.0 {
                        c.check("C11.ventilation.value", approx64(used, 3.6 * l_s as f64 / vinh, 1e-4, 1e-5), || format!("ventilation rate {} want {}", used, 3.6 * l_s as f64 / vinh));
                    }
                } else {
                    c.check("C11.ventilation.value", used == 0.0 && g.global_ventilation_rate == 0.0, || format!("ventilation rate {} without a building value", used));
                }
                // C09: reference wall permeability by building age
                c.check("C09.c_o", g.c_o_100 == if m.meta.is_new_building { 16.0 } else { 29.0 }, || format!("c_o_100 {}", g.c_o_100));
                if a_ref > 0.0 {
                    c.nontrivial(d.clone());
                }
                c.sample(|| format!("{} -> a_ref {} vol {} / {} compactness {}", d, g.a_ref, g.vol_env_gross, g.vol_env_net, g.compactness));
            },
        );
    }

    // ---- C11 / C09: net height = gross height minus the thickness of the FIRST covering element in model order
    // (the documented rule of Space::height_net: own roofs / ceilings and floors of the space above given from the
    // other side are both covering elements)
    #[test]
    fn n_c11_height_net() {
        drive("C11.height_net", "Space::height_net / EnergyProps volumes: lower space covered by {own roof 0.10 m, slab of the upper space 0.30 m given from above, both in either order, none}; a side wall and a foreign roof placed before them", |c| {
            let cover = c.pick(5); // 0 none, 1 roof only, 2 slab only, 3 roof then slab, 4 slab then roof
            let decoys_first = c.flag();
            let mut m = empty_model();
            m.spaces.push(space(0xA0, true, SpaceType::CONDITIONED, 1.0, 3.0));
            m.spaces.push(space(0xA1, true, SpaceType::CONDITIONED, 1.0, 2.5));
            m.cons.materials.push(material(0xE0, 0.5));
            m.cons.wallcons.push(wallcons(0xC1, &[(0xE0, 0.10)]));
            m.cons.wallcons.push(wallcons(0xC3, &[(0xE0, 0.30)]));
            m.cons.wallcons.push(wallcons(0xC4, &[(0xE0, 0.40)]));
            let floor = wall(1, BoundaryType::GROUND, uid(0xA0), None, uid(0xC3), 180.0, 0.0, rect(5.0, 4.0), None);
            let roof = wall(2, BoundaryType::EXTERIOR, uid(0xA0), None, uid(0xC1), 0.0, 0.0, rect(1.0, 4.0), None);
            let slab = wall(3, BoundaryType::INTERIOR, uid(0xA1), Some(uid(0xA0)), uid(0xC3), 180.0, 0.0, rect(4.0, 4.0), None);
            // decoys: a side wall of the space, the roof of the UPPER space, a floor of the lower space seen from itself
            let side = wall(4, BoundaryType::EXTERIOR, uid(0xA0), None, uid(0xC4), 90.0, 0.0, rect(5.0, 3.0), None);
            let upper_roof = wall(5, BoundaryType::EXTERIOR, uid(0xA1), None, uid(0xC4), 0.0, 0.0, rect(4.0, 4.0), None);
            if decoys_first {
                m.walls.push(side.clone());
                m.walls.push(upper_roof.clone());
            }
            m.walls.push(floor);
            let want_thickness = match cover {
                0 => 0.0,
                1 => { m.walls.push(roof); 0.10 }
                2 => { m.walls.push(slab); 0.30 }
                3 => { m.walls.push(roof); m.walls.push(slab); 0.10 }
                _ => { m.walls.push(slab); m.walls.push(roof); 0.30 }
            };
            if !decoys_first {
                m.walls.push(side);
                m.walls.push(upper_roof);
            }
            c.note(format!("cover#{} decoys_first {}", cover, decoys_first));
            let h = m.spaces[0].height_net(&m.walls, &m.cons);
            c.check("C11.height_net.first_covering", approx(h, 3.0 - want_thickness, 1e-6, 1e-5), || format!("height_net {} want {}", h, 3.0 - want_thickness));
            let hu = m.spaces[1].height_net(&m.walls, &m.cons);
            c.check("C11.height_net.upper", approx(hu, 2.5 - 0.40, 1e-6, 1e-5), || format!("upper space height_net {} want 2.1", hu));
            let p = energy::EnergyProps::from(&m);
            // the upper space's floor is the slab (its own BOTTOM wall, 4 x 4): without the slab it has no floor area
            let upper_area = if cover >= 2 { 16.0 } else { 0.0 };
            let vn = 20.0 * (3.0 - want_thickness as f64) + upper_area * 2.1;
            c.check("C11.vol_net", approx64(p.global.vol_env_net, vn, 1e-5, 0.011), || format!("vol_env_net {} want {}", p.global.vol_env_net, vn));
            c.nontrivial(format!("{} {}", cover, decoys_first));
            c.sample(|| format!("cover#{} decoys_first {} -> height_net {}", cover, decoys_first, h));
        });
    }

    // ---- C11: scaling all lengths by s -----------------------------------------------------------------
    fn scaled_model(s: f32, in1: bool, m0: f32, kind1: SpaceType) -> Model {
        let mut m = empty_model();
        m.spaces.push(space(0xA0, true, SpaceType::CONDITIONED, m0, 3.0 * s));
        m.spaces.push(space(0xA1, in1, kind1, 1.0, 2.5 * s));
        m.cons.materials.push(material(0xE0, 0.5));
        m.cons.wallcons.push(wallcons(0xC0, &[(0xE0, 0.25 * s)]));
        m.walls.push(wall(1, BoundaryType::GROUND, uid(0xA0), None, uid(0xC0), 180.0, 0.0, rect(4.0 * s, 5.0 * s), None));
        m.walls.push(wall(2, BoundaryType::INTERIOR, uid(0xA1), Some(uid(0xA0)), uid(0xC0), 180.0, 0.0, rect(4.0 * s, 5.0 * s), None));
        m.walls.push(wall(3, BoundaryType::EXTERIOR, uid(0xA1), None, uid(0xC0), 0.0, 0.0, rect(4.0 * s, 5.0 * s), None));
        m.walls.push(wall(4, BoundaryType::EXTERIOR, uid(0xA0), None, uid(0xC0), 90.0, 0.0, rect(4.0 * s, 3.0 * s), None));
        m.walls.push(wall(5, BoundaryType::EXTERIOR, uid(0xA1), None, uid(0xC0), 90.0, 90.0, rect(5.0 * s, 2.5 * s), None));
        m
    }

    #[test]
    fn n_c11_scaling() {
        drive("C11.scaling", "two stacked spaces (ceiling given from the upper side) scaled by s in {0.25,0.5,2,4}; upper space in/out, 3 kinds; multiplier {1,2}", |c| {
            let s = c.of(&[0.25f32, 0.5, 2.0, 4.0]);
            let in1 = c.flag();
            let m0 = c.of(&[1.0f32, 2.0]);
            let k1 = c.of(&KINDS3);
            c.note(format!("s={} in1={} m0={} k1={:?}", s, in1, m0, k1));
            let g1 = energy::EnergyProps::from(&scaled_model(1.0, in1, m0, k1)).global;
            let gs = energy::EnergyProps::from(&scaled_model(s, in1, m0, k1)).global;
            let (s2, s3) = (s * s, s * s * s);
            // every figure is rounded to 0.01 before and after scaling
            let tol = |k: f32| 0.0051 * (1.0 + k);
            c.check("C11.scale.a_ref", (gs.a_ref - g1.a_ref * s2).abs() <= tol(s2) + 1e-5 * gs.a_ref, || format!("a_ref {} vs {} * {}", gs.a_ref, g1.a_ref, s2));
            c.check("C11.scale.vol_gross", (gs.vol_env_gross - g1.vol_env_gross * s3).abs() <= tol(s3) + 1e-5 * gs.vol_env_gross, || format!("vol_gross {} vs {} * {}", gs.vol_env_gross, g1.vol_env_gross, s3));
            c.check("C11.scale.vol_net", (gs.vol_env_net - g1.vol_env_net * s3).abs() <= tol(s3) + 1e-4 * gs.vol_env_net, || format!("vol_net {} vs {} * {}", gs.vol_env_net, g1.vol_env_net, s3));
            c.check("C11.scale.compactness", (gs.compactness - g1.compactness * s).abs() <= 2e-3 * (1.0 + s), || format!("compactness {} vs {} * {}", gs.compactness, g1.compactness, s));
            c.check("C11.scale.sanity", g1.a_ref > 0.0 && g1.vol_env_net > 0.0 && g1.vol_env_net < g1.vol_env_gross && g1.compactness > 0.0, || format!("unit model: {:?}", g1));
            // the unit model by hand: lower space 4x5 (height 3, covered from above by the floor of the upper space,
            // 0.25 m thick), upper space 4x5 (height 2.5, roof 0.25 m)
            let hab1 = in1 && k1 != SpaceType::UNINHABITED;
            let a_ref = 20.0 * m0 as f64 + if hab1 { 20.0 } else { 0.0 };
            let vg = 60.0 * m0 as f64 + if in1 { 50.0 } else { 0.0 };
            let vn = 20.0 * 2.75 * m0 as f64 + if in1 { 20.0 * 2.25 } else { 0.0 };
            c.check("C11.unit.a_ref", approx64(g1.a_ref, a_ref, 1e-5, 0.006), || format!("a_ref {} want {}", g1.a_ref, a_ref));
            c.check("C11.unit.vol_gross", approx64(g1.vol_env_gross, vg, 1e-5, 0.006), || format!("vol_env_gross {} want {}", g1.vol_env_gross, vg));
            c.check("C11.unit.vol_net", approx64(g1.vol_env_net, vn, 1e-5, 0.006), || format!("vol_env_net {} want {} (ceiling of the lower space is given from the upper space's side)", g1.vol_env_net, vn));
            c.nontrivial(format!("{} {} {} {:?}", s, in1, m0, k1));
            c.sample(|| format!("s={} in1={} m0={} -> a_ref {} vol {} / {} comp {}", s, in1, m0, gs.a_ref, gs.vol_env_gross, gs.vol_env_net, gs.compactness));
        });
    }

    // ---- C15: the model checker reports exactly the broken links -------------------------------------------
    /// a link: valid / nil / absent everywhere / the id of an element of ANOTHER collection (still broken)
    fn link(c: &mut Ctx, valid: Uuid, elsewhere: Uuid) -> (Uuid, bool) {
        match c.pick(4) {
            0 => (valid, true),
            1 => (Uuid::nil(), false),
            2 => (uid(0xDEAD), false),
            _ => (elsewhere, false),
        }
    }

    // what a construction is made of is none of the links the checker reports: warnings depend on the wall -> construction
    // and window -> construction links alone, whatever state the construction itself is in
    #[test]
    fn n_c15_made_of() {
        drive(
            "C15.made_of",
            "check(&Model): 1 space, 2 walls, 1 window; the wall construction complete / naming a material that is not in the list / made of a material of conductivity 0 / without layers / two constructions sharing one name, the window construction with / without its glazing / its frame; x wall 0 space link x wall 0 construction link x window wall link x window construction link over {ok, nil, absent, id of another collection}",
            |c| {
                let mut m = empty_model();
                m.spaces.push(space(0xA0, true, SpaceType::CONDITIONED, 1.0, 3.0));
                let inside = c.pick(5);
                let win_inside = c.pick(3);
                m.cons.materials.push(material(0xE0, if inside == 2 { 0.0 } else { 0.5 }));
                m.cons.wallcons.push(match inside {
                    1 => wallcons(0xC0, &[(0xE0, 0.3), (0xE7, 0.1)]),
                    3 => wallcons(0xC0, &[]),
                    _ => wallcons(0xC0, &[(0xE0, 0.3)]),
                });
                if inside == 4 {
                    let mut twin = wallcons(0xC1, &[(0xE0, 0.1)]);
                    twin.name = m.cons.wallcons[0].name.clone();
                    m.cons.wallcons.push(twin);
                }
                m.cons.glasses.push(glass(0xF0));
                m.cons.frames.push(frame(0xF1));
                m.cons.wincons.push(match win_inside {
                    0 => wincons(0xD0, uid(0xF0), uid(0xF1)),
                    1 => wincons(0xD0, uid(0xF8), uid(0xF1)),
                    _ => wincons(0xD0, uid(0xF0), uid(0xF9)),
                });
                let mut want: Vec<Uuid> = vec![];
                let (sp, ok_sp) = link(c, uid(0xA0), uid(2));
                let (cn, ok_cn) = link(c, uid(0xC0), uid(0xD0));
                m.walls.push(wall(1, BoundaryType::EXTERIOR, sp, None, cn, 90.0, 0.0, rect(4.0, 3.0), None));
                m.walls.push(wall(2, BoundaryType::EXTERIOR, uid(0xA0), None, uid(0xC0), 90.0, 90.0, rect(4.0, 3.0), None));
                for ok in [ok_sp, ok_cn] {
                    if !ok {
                        want.push(uid(1));
                    }
                }
                let (ww, ok_ww) = link(c, uid(1), uid(0xA0));
                let (wc, ok_wc) = link(c, uid(0xD0), uid(0xC0));
                m.windows.push(window(0x11, ww, wc, 1.0, 1.0, None, 0.0));
                for ok in [ok_ww, ok_wc] {
                    if !ok {
                        want.push(uid(0x11));
                    }
                }
                c.note(format!("wall construction state {} window construction state {} | wall0 space ok={} cons ok={} | window wall ok={} cons ok={}", inside, win_inside, ok_sp, ok_cn, ok_ww, ok_wc));
                let before = m.as_json().unwrap();
                let ws = check(&m);
                let mut got: Vec<Uuid> = ws.iter().filter_map(|w| w.id).collect();
                got.sort();
                want.sort();
                c.check("C15.exact", got == want && ws.iter().all(|w| w.id.is_some()), || format!("warning ids {:?} want {:?}", got, want));
                c.check("C15.model_unchanged", before == m.as_json().unwrap(), || "check() modified the model".to_string());
                if want.is_empty() {
                    c.check("C15.closed_silent", ws.is_empty(), || format!("{} warnings for a closed model: {:?}", ws.len(), ws.iter().map(|w| w.msg.clone()).collect::<Vec<_>>()));
                }
                // the warnings returned with the indicators are the checker's
                let ind = m.energy_indicators();
                let mut got2: Vec<Uuid> = ind.warnings.iter().filter_map(|w| w.id).collect();
                got2.sort();
                c.check("C15.indicators_warnings", got2 == want, || format!("indicators carry warning ids {:?} want {:?}", got2, want));
                c.nontrivial(format!("{} {} {}", inside, win_inside, want.len()));
            },
        );
    }

    #[test]
    fn n_c15_check() {
        drive(
            "C15.check",
            "check(&Model): 2 spaces; every link over {ok, nil, absent, id of an element of another collection}: wall 0 space x construction x adjacent {none,ok,nil,absent,wall id} x boundary kind {interior,exterior,ground,adiabatic}; wall 1 space; window 0 wall x construction; window 1 wall; 2 bridges each over length {-1,-0.0,0,1}",
            |c| {
                let mut m = empty_model();
                m.spaces.push(space(0xA0, true, SpaceType::CONDITIONED, 1.0, 3.0));
                m.spaces.push(space(0xA1, true, SpaceType::CONDITIONED, 1.0, 3.0));
                m.cons.materials.push(material(0xE0, 0.5));
                m.cons.wallcons.push(wallcons(0xC0, &[(0xE0, 0.3)]));
                m.cons.glasses.push(glass(0xF0));
                m.cons.frames.push(frame(0xF1));
                m.cons.wincons.push(wincons(0xD0, uid(0xF0), uid(0xF1)));
                let mut want: Vec<Uuid> = vec![];
                // wall 0
                let (sp, ok_sp) = link(c, uid(0xA0), uid(2));
                let (cn, ok_cn) = link(c, uid(0xC0), uid(0xD0));
                let nx = c.pick(5);
                let (nid, ok_nx) = match nx {
                    0 => (None, true),
                    1 => (Some(uid(0xA1)), true),
                    2 => (Some(Uuid::nil()), false),
                    3 => (Some(uid(0xDEAD)), false),
                    _ => (Some(uid(2)), false), // the id of a wall, not of a space
                };
                // the adjacent-space link is checked whatever the wall's boundary kind (a party wall may carry one too)
                let kind0 = c.of(&[BoundaryType::INTERIOR, BoundaryType::EXTERIOR, BoundaryType::GROUND, BoundaryType::ADIABATIC]);
                m.walls.push(wall(1, kind0, sp, nid, cn, 90.0, 0.0, rect(4.0, 3.0), None));
                for ok in [ok_sp, ok_cn, ok_nx] {
                    if !ok {
                        want.push(uid(1));
                    }
                }
                // wall 1
                let (sp1, ok_sp1) = link(c, uid(0xA1), uid(0xC0));
                m.walls.push(wall(2, BoundaryType::EXTERIOR, sp1, None, uid(0xC0), 90.0, 0.0, rect(4.0, 3.0), None));
                if !ok_sp1 {
                    want.push(uid(2));
                }
                // windows
                let (ww, ok_ww) = link(c, uid(1), uid(0xA0));
                let (wc, ok_wc) = link(c, uid(0xD0), uid(0xC0));
                m.windows.push(window(0x11, ww, wc, 1.0, 1.0, None, 0.0));
                for ok in [ok_ww, ok_wc] {
                    if !ok {
                        want.push(uid(0x11));
                    }
                }
                let (ww1, ok_ww1) = link(c, uid(2), uid(0x11));
                m.windows.push(window(0x12, ww1, uid(0xD0), 1.0, 1.0, None, 0.0));
                if !ok_ww1 {
                    want.push(uid(0x12));
                }
                // bridges
                let mut ls = vec![];
                for i in 0..2u128 {
                    let l = c.of(&[-1.0f32, -0.0, 0.0, 1.0]);
                    m.thermal_bridges.push(bridge(0x21 + i, ThermalBridgeKind::CORNER, l, 0.1));
                    if l < 0.0 {
                        want.push(uid(0x21 + i));
                    }
                    ls.push(l);
                }
                c.note(format!("wall0 ({:?}): space ok={} cons ok={} next#{} | wall1 space ok={} | win0 wall ok={} cons ok={} | win1 wall ok={} | l={:?}", kind0, ok_sp, ok_cn, nx, ok_sp1, ok_ww, ok_wc, ok_ww1, ls));
                let before = m.as_json().unwrap();
                let ws = check(&m);
                let after = m.as_json().unwrap();
                let mut got: Vec<Uuid> = ws.iter().filter_map(|w| w.id).collect();
                got.sort();
                want.sort();
                c.check("C15.exact", got == want, || format!("warning ids {:?} want {:?}", got, want));
                c.check("C15.all_carry_id", ws.iter().all(|w| w.id.is_some()), || "a warning without element id".to_string());
                c.check("C15.model_unchanged", before == after, || "check() modified the model".to_string());
                if want.is_empty() {
                    c.check("C15.closed_silent", ws.is_empty(), || format!("{} warnings for a closed model", ws.len()));
                }
                // the warnings returned with the indicators are the checker's (sampled: only when both bridges are regular)
                if ls == [1.0, 1.0] || ls == [-1.0, 0.0] {
                    let ind = m.energy_indicators();
                    let a: Vec<_> = ind.warnings.iter().map(|w| (w.id, w.msg.clone(), w.level)).collect();
                    let b: Vec<_> = ws.iter().map(|w| (w.id, w.msg.clone(), w.level)).collect();
                    c.check("C15.indicators_warnings", a == b, || format!("indicator warnings {:?} vs checker {:?}", a.len(), b.len()));
                }
                if !want.is_empty() {
                    c.nontrivial(format!("{:?}", want));
                }
                c.sample(|| format!("links wall0=({},{},{}) .. -> {} warnings", ok_sp, ok_cn, nx, ws.len()));
            },
        );
    }

    // ---- C16: purge ---------------------------------------------------------------------------------------
    fn sched(id: u128, values: &[(u128, u32)]) -> Schedule {
        Schedule { id: uid(id), name: format!("Y{:x}", id), values: values.iter().map(|(w, n)| (uid(*w), *n)).collect() }
    }
    fn schedw(id: u128, values: &[(u128, u32)]) -> ScheduleWeek {
        ScheduleWeek { id: uid(id), name: format!("K{:x}", id), values: values.iter().map(|(d, n)| (uid(*d), *n)).collect() }
    }
    fn schedd(id: u128, v: f32) -> ScheduleDay {
        ScheduleDay { id: uid(id), name: format!("D{:x}", id), values: vec![v; 24] }
    }

    fn ids<T>(v: &[T], f: impl Fn(&T) -> Uuid) -> Vec<Uuid> {
        v.iter().map(f).collect()
    }

    /// The statement of C16 as an independent oracle: what must remain, in order.
    struct Remain {
        spaces: Vec<Uuid>,
        tbs: Vec<Uuid>,
        wallcons: Vec<Uuid>,
        wincons: Vec<Uuid>,
        materials: Vec<Uuid>,
        glasses: Vec<Uuid>,
        frames: Vec<Uuid>,
        loads: Vec<Uuid>,
        thermostats: Vec<Uuid>,
        year: Vec<Uuid>,
        week: Vec<Uuid>,
        day: Vec<Uuid>,
    }

    fn purge_oracle(m: &Model) -> Remain {
        let keep = |all: Vec<Uuid>, used: &Vec<Uuid>| -> Vec<Uuid> { all.into_iter().filter(|x| used.contains(x)).collect() };
        let used_spaces: Vec<Uuid> = m.walls.iter().flat_map(|w| std::iter::once(w.space).chain(w.next_to)).collect();
        let spaces = keep(ids(&m.spaces, |x| x.id), &used_spaces);
        // zero length: |l| below float resolution (lengths in (0, 1e-6) are not enumerated: either reading is acceptable there)
        let tbs: Vec<Uuid> = m.thermal_bridges.iter().filter(|t| t.l.abs() > 1.0e-6).map(|t| t.id).collect();
        let wallcons = keep(ids(&m.cons.wallcons, |x| x.id), &m.walls.iter().map(|w| w.cons).collect());
        let wincons = keep(ids(&m.cons.wincons, |x| x.id), &m.windows.iter().map(|w| w.cons).collect());
        let used_mats: Vec<Uuid> = m.cons.wallcons.iter().filter(|c| wallcons.contains(&c.id)).flat_map(|c| c.layers.iter().map(|l| l.material)).collect();
        let materials = keep(ids(&m.cons.materials, |x| x.id), &used_mats);
        let glasses = keep(ids(&m.cons.glasses, |x| x.id), &m.cons.wincons.iter().filter(|c| wincons.contains(&c.id)).map(|c| c.glass).collect());
        let frames = keep(ids(&m.cons.frames, |x| x.id), &m.cons.wincons.iter().filter(|c| wincons.contains(&c.id)).map(|c| c.frame).collect());
        let rem_spaces: Vec<&Space> = m.spaces.iter().filter(|x| spaces.contains(&x.id)).collect();
        let loads = keep(ids(&m.loads, |x| x.id), &rem_spaces.iter().filter_map(|x| x.loads).collect());
        let thermostats = keep(ids(&m.thermostats, |x| x.id), &rem_spaces.iter().filter_map(|x| x.thermostat).collect());
        let mut used_year: Vec<Uuid> = m.loads.iter().filter(|l| loads.contains(&l.id)).flat_map(|l| [l.people_schedule, l.equipment_schedule, l.lighting_schedule]).flatten().collect();
        used_year.extend(m.thermostats.iter().filter(|t| thermostats.contains(&t.id)).flat_map(|t| [t.temp_max, t.temp_min]).flatten());
        let year = keep(ids(&m.schedules.year, |x| x.id), &used_year);
        let week = keep(ids(&m.schedules.week, |x| x.id), &m.schedules.year.iter().filter(|y| year.contains(&y.id)).flat_map(|y| y.values.iter().map(|v| v.0)).collect());
        let day = keep(ids(&m.schedules.day, |x| x.id), &m.schedules.week.iter().filter(|w| week.contains(&w.id)).flat_map(|w| w.values.iter().map(|v| v.0)).collect());
        Remain { spaces, tbs, wallcons, wincons, materials, glasses, frames, loads, thermostats, year, week, day }
    }

    fn nan_eq(a: f32, b: f32) -> bool {
        a == b || (a.is_nan() && b.is_nan())
    }

    #[test]
    fn n_c16_purge() {
        drive(
            "C16.purge",
            "purge_unused(&mut Model): 3 spaces, 2 walls (own space {s0,s1}, adjacent {none,s1,s2}, construction {c0,c1}), 1 window (construction {x0,x1}; x1 glass {g0,g1}), 4 bridges (lengths {0,2} / -1 / 0.001 / -0.0), space kind {conditioned, unconditioned, uninhabited} x loads {none,l0,l1} x thermostat {none,t0}, load schedules over 3 yearly, thermostat schedule {none,y1,y2}, yearly->weekly->daily chains with sharing and with references of length 0; every collection listed as built / reversed / rotated by one",
            |c| {
                let mut m = empty_model();
                for i in 0..3u128 {
                    m.spaces.push(space(0xA0 + i, true, SpaceType::CONDITIONED, 1.0, 3.0));
                }
                for i in 0..3u128 {
                    m.cons.materials.push(material(0xE0 + i, 0.5));
                }
                m.cons.wallcons.push(wallcons(0xC0, &[(0xE0, 0.3)]));
                m.cons.wallcons.push(wallcons(0xC1, &[(0xE1, 0.2), (0xE0, 0.1)]));
                m.cons.glasses.push(glass(0xF0));
                m.cons.glasses.push(glass(0xF2));
                m.cons.frames.push(frame(0xF1));
                m.cons.frames.push(frame(0xF3));
                let g1 = c.of(&[0xF0u128, 0xF2]);
                m.cons.wincons.push(wincons(0xD0, uid(0xF0), uid(0xF1)));
                // (a construction without frame fraction still names its frame: the reference keeps the frame)
                let mut frameless = wincons(0xD1, uid(g1), uid(0xF3));
                frameless.f_f = 0.0;
                m.cons.wincons.push(frameless);
                // walls
                let w0s = c.of(&[0xA0u128, 0xA1]);
                let w0n = c.of(&[None, Some(0xA1u128), Some(0xA2)]);
                let w0c = c.of(&[0xC0u128, 0xC1]);
                m.walls.push(wall(1, BoundaryType::GROUND, uid(0xA0), None, uid(0xC0), 180.0, 0.0, rect(4.0, 5.0), None));
                m.walls.push(wall(2, if w0n.is_some() { BoundaryType::INTERIOR } else { BoundaryType::EXTERIOR }, uid(w0s), w0n.map(uid), uid(w0c), 90.0, 0.0, rect(4.0, 3.0), None));
                let wx = c.of(&[0xD0u128, 0xD1]);
                m.windows.push(window(0x11, uid(2), uid(wx), 1.0, 1.0, None, 0.0));
                // bridges
                let l0 = c.of(&[0.0f32, 2.0]);
                m.thermal_bridges.push(bridge(0x21, ThermalBridgeKind::CORNER, l0, 0.1));
                m.thermal_bridges.push(bridge(0x22, ThermalBridgeKind::ROOF, -1.0, 0.1));
                m.thermal_bridges.push(bridge(0x23, ThermalBridgeKind::PILLAR, 1.0e-3, 0.1));
                m.thermal_bridges.push(bridge(0x24, ThermalBridgeKind::PILLAR, -0.0, 0.1));
                // loads, thermostats, schedules
                let sl = c.of(&[None, Some(0xB0u128), Some(0xB1)]);
                let st = c.of(&[None, Some(0xB8u128)]);
                m.spaces[0].loads = sl.map(uid);
                m.spaces[0].thermostat = st.map(uid);
                // what keeps loads / thermostats / schedules alive is the reference, whatever the kind of the space
                m.spaces[0].kind = c.of(&[SpaceType::CONDITIONED, SpaceType::UNCONDITIONED, SpaceType::UNINHABITED]);
                // a space that no wall refers to holds references too: they must not keep anything alive
                m.spaces[2].loads = Some(uid(0xB1));
                let ps = c.of(&[None, Some(0x30u128), Some(0x31)]);
                let es = c.of(&[None, Some(0x31u128), Some(0x32)]);
                m.loads.push(SpaceLoads { id: uid(0xB0), name: "L0".into(), area_per_person: 10.0, people_schedule: ps.map(uid), people_sensible: 5.0, people_latent: 2.0, equipment: 4.0, equipment_schedule: es.map(uid), lighting: 3.0, lighting_schedule: None });
                m.loads.push(SpaceLoads { id: uid(0xB1), name: "L1".into(), area_per_person: 10.0, people_schedule: Some(uid(0x32)), people_sensible: 5.0, people_latent: 2.0, equipment: 4.0, equipment_schedule: None, lighting: 3.0, lighting_schedule: Some(uid(0x30)) });
                let ts = c.of(&[None, Some(0x31u128), Some(0x32)]);
                m.thermostats.push(Thermostat { id: uid(0xB8), name: "T0".into(), temp_max: ts.map(uid), temp_min: None });
                m.thermostats.push(Thermostat { id: uid(0xB9), name: "T1".into(), temp_max: Some(uid(0x30)), temp_min: Some(uid(0x30)) });
                let y0w = c.of(&[0x40u128, 0x41]);
                m.schedules.year.push(sched(0x30, &[(y0w, 365)]));
                m.schedules.year.push(sched(0x31, &[(0x41, 100), (0x42, 265)]));
                m.schedules.year.push(sched(0x32, &[(0x42, 365)]));
                let k1d = c.of(&[0x50u128, 0x51]);
                // a run of length 0 is still a reference: the daily schedule it names stays reachable
                m.schedules.week.push(schedw(0x40, &[(0x50, 7), (0x52, 0)]));
                m.schedules.week.push(schedw(0x41, &[(k1d, 5), (0x51, 2)]));
                m.schedules.week.push(schedw(0x42, &[(0x52, 7)]));
                m.schedules.day.push(schedd(0x50, 1.0));
                m.schedules.day.push(schedd(0x51, 0.5));
                m.schedules.day.push(schedd(0x52, 0.0));
                // the order in which the collections list their items: as built / reversed / rotated by one (an unused
                // item then sits before, between or after the used ones)
                let layout = c.pick(3);
                macro_rules! lay {
                    ($v:expr) => {
                        match layout {
                            1 => $v.reverse(),
                            2 => {
                                if $v.len() > 1 {
                                    $v.rotate_left(1)
                                }
                            }
                            _ => {}
                        }
                    };
                }
                lay!(m.spaces);
                lay!(m.thermal_bridges);
                lay!(m.cons.materials);
                lay!(m.cons.wallcons);
                lay!(m.cons.wincons);
                lay!(m.cons.glasses);
                lay!(m.cons.frames);
                lay!(m.loads);
                lay!(m.thermostats);
                lay!(m.schedules.year);
                lay!(m.schedules.week);
                lay!(m.schedules.day);
                c.note(format!("g1={:x} w={:x}/{:?}/{:x} win={:x} l0={} loads={:?} therm={:?} ps={:?} es={:?} ts={:?} y0w={:x} k1d={:x} order={}", g1, w0s, w0n, w0c, wx, l0, sl, st, ps, es, ts, y0w, k1d, ["as built", "reversed", "rotated"][layout]));

                let want = purge_oracle(&m);
                let ind0 = m.energy_indicators();
                let warn0 = check(&m).len();
                let mut p = m.clone();
                let _ = purge_unused(&mut p);
                let cmp = |name: &str, got: Vec<Uuid>, want: &Vec<Uuid>, c: &mut Ctx| {
                    c.check(name, &got == want, || format!("{}: kept {:?} want {:?}", name, got.iter().map(|u| u.as_u128()).collect::<Vec<_>>(), want.iter().map(|u| u.as_u128()).collect::<Vec<_>>()));
                };
                cmp("C16.spaces", ids(&p.spaces, |x| x.id), &want.spaces, c);
                cmp("C16.bridges", ids(&p.thermal_bridges, |x| x.id), &want.tbs, c);
                cmp("C16.wallcons", ids(&p.cons.wallcons, |x| x.id), &want.wallcons, c);
                cmp("C16.wincons", ids(&p.cons.wincons, |x| x.id), &want.wincons, c);
                cmp("C16.materials", ids(&p.cons.materials, |x| x.id), &want.materials, c);
                cmp("C16.glasses", ids(&p.cons.glasses, |x| x.id), &want.glasses, c);
                cmp("C16.frames", ids(&p.cons.frames, |x| x.id), &want.frames, c);
                cmp("C16.loads", ids(&p.loads, |x| x.id), &want.loads, c);
                cmp("C16.thermostats", ids(&p.thermostats, |x| x.id), &want.thermostats, c);
                cmp("C16.sched.year", ids(&p.schedules.year, |x| x.id), &want.year, c);
                cmp("C16.sched.week", ids(&p.schedules.week, |x| x.id), &want.week, c);
                cmp("C16.sched.day", ids(&p.schedules.day, |x| x.id), &want.day, c);
                // frame: nothing else changes
                c.check("C16.frame", serde_json::to_string(&p.walls).unwrap() == serde_json::to_string(&m.walls).unwrap() && serde_json::to_string(&p.windows).unwrap() == serde_json::to_string(&m.windows).unwrap() && serde_json::to_string(&p.meta).unwrap() == serde_json::to_string(&m.meta).unwrap() && serde_json::to_string(&p.shades).unwrap() == serde_json::to_string(&m.shades).unwrap(), || "walls / windows / shades / meta changed".to_string());
                // kept items are unchanged
                let kept_same = p.spaces.iter().all(|x| serde_json::to_string(x).unwrap() == serde_json::to_string(m.spaces.iter().find(|y| y.id == x.id).unwrap()).unwrap())
                    && p.schedules.year.iter().all(|x| serde_json::to_string(x).unwrap() == serde_json::to_string(m.schedules.year.iter().find(|y| y.id == x.id).unwrap()).unwrap())
                    && p.cons.wallcons.iter().all(|x| serde_json::to_string(x).unwrap() == serde_json::to_string(m.cons.wallcons.iter().find(|y| y.id == x.id).unwrap()).unwrap());
                c.check("C16.kept_unchanged", kept_same, || "a kept item was modified".to_string());
                // idempotent
                let mut p2 = p.clone();
                let _ = purge_unused(&mut p2);
                c.check("C16.idempotent", p2.as_json().unwrap() == p.as_json().unwrap(), || "purging twice differs from purging once".to_string());
                // no new broken link
                let warn1 = check(&p).len();
                c.check("C16.no_new_broken_link", warn1 <= warn0, || format!("{} warnings before, {} after", warn0, warn1));
                // indicators unchanged
                let ind1 = p.energy_indicators();
                c.check("C16.indicators", nan_eq(ind0.area_ref, ind1.area_ref) && nan_eq(ind0.vol_env_net, ind1.vol_env_net) && nan_eq(ind0.vol_env_gross, ind1.vol_env_gross) && nan_eq(ind0.K_data.K, ind1.K_data.K) && nan_eq(ind0.n50_data.n50, ind1.n50_data.n50) && nan_eq(ind0.q_soljul_data.q_soljul, ind1.q_soljul_data.q_soljul) && nan_eq(ind0.q_soljul_data.Q_soljul, ind1.q_soljul_data.Q_soljul), || {
                    format!("a_ref {} -> {}, K {} -> {}, n50 {} -> {}, q {} -> {}", ind0.area_ref, ind1.area_ref, ind0.K_data.K, ind1.K_data.K, ind0.n50_data.n50, ind1.n50_data.n50, ind0.q_soljul_data.q_soljul, ind1.q_soljul_data.q_soljul)
                });
                let removed = m.spaces.len() - p.spaces.len() + m.schedules.day.len() - p.schedules.day.len() + m.loads.len() - p.loads.len();
                c.nontrivial(format!("{:?}{:?}{:?}{:?}{:?}{:?}", want.spaces.len(), want.year, want.week, want.day, want.materials, want.glasses));
                c.sample(|| format!("loads={:?} therm={:?} ps={:?} es={:?} ts={:?} -> removed {} items; years kept {:?}", sl, st, ps, es, ts, removed, want.year.iter().map(|u| u.as_u128()).collect::<Vec<_>>()));
            },
        );
    }

    // ---- C17: schedules -----------------------------------------------------------------------------------
    #[test]
    fn n_c17_week_expand() {
        drive("C17.week.expand", "ScheduleWeek::to_day_sch: 0..3 runs, run lengths 0..7, 3 daily schedules", |c| {
            let n = c.pick(4);
            let mut runs = vec![];
            for _ in 0..n {
                let d = c.pick(3) as u128;
                let k = c.pick(8) as u32;
                runs.push((0x50 + d, k));
            }
            c.note(format!("{:?}", runs));
            let w = schedw(0x40, &runs);
            let got = w.to_day_sch();
            let mut want = vec![];
            for (d, k) in &runs {
                for _ in 0..*k {
                    want.push(uid(*d));
                }
            }
            c.check("C17.week.expand", got == want, || format!("expansion {:?} want {:?}", got.iter().map(|u| u.as_u128()).collect::<Vec<_>>(), want.iter().map(|u| u.as_u128()).collect::<Vec<_>>()));
            c.check("C17.week.length", got.len() as u32 == runs.iter().map(|r| r.1).sum::<u32>(), || format!("length {}", got.len()));
            if !want.is_empty() {
                c.nontrivial(format!("{:?}", runs));
            }
            c.sample(|| format!("{:?} -> {} days", runs, got.len()));
        });
    }

    fn year_db() -> SchedulesDb {
        let mut db = SchedulesDb::default();
        // W0: seven different days, W1: 5 + 2, W2: only three days (malformed), W3: one schedule all week
        db.week.push(schedw(0x40, &[(0x50, 1), (0x51, 1), (0x52, 1), (0x53, 1), (0x54, 1), (0x55, 1), (0x56, 1)]));
        db.week.push(schedw(0x41, &[(0x57, 5), (0x58, 2)]));
        db.week.push(schedw(0x42, &[(0x59, 3)]));
        db.week.push(schedw(0x43, &[(0x5A, 7)]));
        for d in 0x50..=0x5Au128 {
            db.day.push(schedd(d, (d - 0x50) as f32 / 10.0));
        }
        db
    }

    #[test]
    fn n_c17_year_expand() {
        drive("C17.year.expand", "SchedulesDb::get_year_as_day_sch / year_values: 1..3 periods, lengths in {0,1,6,7,8,31,358}, weekly schedules {7 distinct days, 5+2, one for all, 3-day (malformed)}", |c| {
            let mut db = year_db();
            let np = 1 + c.pick(3);
            let mut periods = vec![];
            for _ in 0..np {
                let w = c.of(&[0x40u128, 0x41, 0x43, 0x42]);
                let len = c.of(&[0u32, 1, 6, 7, 8, 31, 358]);
                periods.push((w, len));
            }
            c.note(format!("{:?}", periods));
            db.year.push(sched(0x30, &periods));
            let got = db.get_year_as_day_sch(uid(0x30));
            let total: u32 = periods.iter().map(|p| p.1).sum();
            c.check("C17.year.length", got.len() as u32 == total, || format!("{} days, period lengths add up to {}", got.len(), total));
            // weekday alignment: day k of the year (0-based, year starts on a Monday) takes slot k mod 7 of its period's week
            let all7 = periods.iter().all(|p| p.0 != 0x42);
            if all7 && got.len() as u32 == total {
                let mut k = 0usize;
                let mut ok = true;
                let mut bad = String::new();
                for (w, len) in &periods {
                    let week = db.get_week(uid(*w)).unwrap().to_day_sch();
                    for _ in 0..*len {
                        if got[k] != week[k % 7] {
                            ok = false;
                            bad = format!("day {} is {:x} want slot {} = {:x}", k, got[k].as_u128(), k % 7, week[k % 7].as_u128());
                        }
                        k += 1;
                    }
                }
                c.check("C17.year.weekday_alignment", ok, || bad.clone());
                // hourly values: 24 per day, in order
                let vals = db.year_values(uid(0x30));
                c.check("C17.year.values", vals.len() == 24 * got.len() && got.iter().enumerate().all(|(i, d)| vals[24 * i] == db.get_day(*d).unwrap().values[0]), || format!("{} hourly values for {} days", vals.len(), got.len()));
            }
            // an unknown yearly schedule expands to nothing
            c.check("C17.year.unknown", db.get_year_as_day_sch(uid(0x3F)).is_empty(), || "unknown schedule expands to days".to_string());
            if total > 0 {
                c.nontrivial(format!("{:?}", periods));
            }
            c.sample(|| format!("{:?} -> {} days", periods, got.len()));
        });
    }

    // ---- C17: occupied time and mean internal load -----------------------------------------------------------
    fn hours(from: usize, to: usize, v: f32) -> Vec<f32> {
        (0..24).map(|h| if h >= from && h < to { v } else { 0.0 }).collect()
    }

    #[test]
    fn n_c17_occupancy() {
        drive("C17.occupancy", "EnergyProps::from(&Model) occupancy figures: 3 spaces each over loads {none, L0, L1} x (space 1: in/out, space 2: habitable/uninhabitable), multipliers {1,2}; L1 schedule {same as L0, evening, overlapping}; weekly patterns work-week / every day", |c| {
            let mut m = empty_model();
            // daily schedules
            let d_work = ScheduleDay { id: uid(0x50), name: "work".into(), values: hours(8, 17, 1.0) };
            let d_zero = ScheduleDay { id: uid(0x51), name: "zero".into(), values: vec![0.0; 24] };
            let d_eve = ScheduleDay { id: uid(0x52), name: "eve".into(), values: hours(18, 23, 0.5) };
            let d_ovl = ScheduleDay { id: uid(0x53), name: "ovl".into(), values: hours(15, 20, 0.25) };
            m.schedules.day = vec![d_work.clone(), d_zero.clone(), d_eve.clone(), d_ovl.clone()];
            m.schedules.week.push(schedw(0x40, &[(0x50, 5), (0x51, 2)]));
            m.schedules.week.push(schedw(0x41, &[(0x52, 7)]));
            m.schedules.week.push(schedw(0x42, &[(0x53, 7)]));
            m.schedules.year.push(sched(0x30, &[(0x40, 365)]));
            m.schedules.year.push(sched(0x31, &[(0x41, 100), (0x41, 265)]));
            m.schedules.year.push(sched(0x32, &[(0x42, 365)]));
            let l1_sched = c.of(&[0x30u128, 0x31, 0x32]);
            m.loads.push(SpaceLoads { id: uid(0xB0), name: "L0".into(), area_per_person: 10.0, people_schedule: Some(uid(0x30)), people_sensible: 6.0, people_latent: 3.0, equipment: 4.0, equipment_schedule: Some(uid(0x30)), lighting: 5.0, lighting_schedule: Some(uid(0x31)) });
            m.loads.push(SpaceLoads { id: uid(0xB1), name: "L1".into(), area_per_person: 10.0, people_schedule: Some(uid(l1_sched)), people_sensible: 2.0, people_latent: 1.0, equipment: 1.5, equipment_schedule: None, lighting: 7.0, lighting_schedule: Some(uid(l1_sched)) });
            m.cons.materials.push(material(0xE0, 0.5));
            m.cons.wallcons.push(wallcons(0xC0, &[(0xE0, 0.3)]));
            let areas = [20.0f32, 15.0, 6.0];
            let dims = [(4.0f32, 5.0f32), (3.0, 5.0), (2.0, 3.0)];
            let mut used: Vec<(usize, u128, f32)> = vec![]; // (space, loads, multiplier) of habitable inside spaces with loads
            let mut desc = vec![];
            for i in 0..3usize {
                let l = c.of(&[None, Some(0xB0u128), Some(0xB1)]);
                let inside = if i == 1 { c.flag() } else { true };
                let kind = if i == 2 { c.of(&[SpaceType::CONDITIONED, SpaceType::UNINHABITED]) } else { SpaceType::UNCONDITIONED };
                let mult = if i == 0 { c.of(&[1.0f32, 2.0]) } else { 1.0 };
                let mut sp = space(0xA0 + i as u128, inside, kind, mult, 3.0);
                sp.loads = l.map(uid);
                m.spaces.push(sp);
                m.walls.push(wall(1 + i as u128, BoundaryType::GROUND, uid(0xA0 + i as u128), None, uid(0xC0), 180.0, 0.0, rect(dims[i].0, dims[i].1), None));
                desc.push(format!("s{}: loads={:?} inside={} {:?} x{}", i, l.map(|x| x - 0xB0), inside, kind, mult));
                if let Some(l) = l {
                    if inside && kind != SpaceType::UNINHABITED {
                        used.push((i, l, mult));
                    }
                }
            }
            c.note(format!("L1 sched {:x} | {}", l1_sched, desc.join(" | ")));
            let p = energy::EnergyProps::from(&m);
            // --- oracle: occupied hours
            let day_for = |year: u128, k: usize| -> &ScheduleDay {
                match year {
                    0x30 => if k % 7 < 5 { &d_work } else { &d_zero },
                    0x31 => &d_eve,
                    _ => &d_ovl,
                }
            };
            let people_sched = |l: u128| if l == 0xB0 { 0x30u128 } else { l1_sched };
            let mut hours_in_use = 0u32;
            for k in 0..365usize {
                for h in 0..24usize {
                    if used.iter().any(|(_, l, _)| day_for(people_sched(*l), k).values[h] != 0.0) {
                        hours_in_use += 1;
                    }
                }
            }
            c.check("C17.occupancy.hours", p.global.occ_spaces_hours_in_use == hours_in_use, || format!("occupied hours {} want {}", p.global.occ_spaces_hours_in_use, hours_in_use));
            // --- oracle: mean internal load (area weighted), schedule averages over the year
            let avg = |year: u128| -> f64 {
                (0..365usize).map(|k| day_for(year, k).values.iter().map(|v| *v as f64).sum::<f64>() / 24.0).sum::<f64>() / 365.0
            };
            let load_avg = |l: u128| -> f64 {
                if l == 0xB0 {
                    avg(0x30) * 6.0 + avg(0x31) * 5.0 + avg(0x30) * 4.0
                } else {
                    avg(l1_sched) * 2.0 + avg(l1_sched) * 7.0 + 0.0 * 1.5
                }
            };
            let (mut tl, mut ta) = (0.0f64, 0.0f64);
            for (i, l, mu) in &used {
                tl += load_avg(*l) * areas[*i] as f64 * *mu as f64;
                ta += areas[*i] as f64 * *mu as f64;
            }
            let want = if ta > 0.0 { tl / ta } else { 0.0 };
            c.check("C17.occupancy.mean_load", approx64(p.global.occ_spaces_average_load, want, 1e-4, 1e-5), || format!("mean internal load {} want {}", p.global.occ_spaces_average_load, want));
            for (lid, l) in [(0xB0u128, 0usize), (0xB1, 1)] {
                c.check("C17.loads_avg", approx64(p.loads[&uid(lid)].loads_avg, load_avg(lid), 1e-4, 1e-5), || format!("loads_avg of L{} = {} want {}", l, p.loads[&uid(lid)].loads_avg, load_avg(lid)));
            }
            if !used.is_empty() {
                c.nontrivial(format!("{:x} {:?}", l1_sched, used));
            }
            c.sample(|| format!("L1 sched {:x} | {} -> {} h, {} W/m2", l1_sched, desc.join(" | "), p.global.occ_spaces_hours_in_use, p.global.occ_spaces_average_load));
        });
    }

    // ---- C14: the indicator computation is total ---------------------------------------------------------------
    /// A small closed model with every kind of element: 2 storeys, positioned walls, a set-back window, a shade,
    /// bridges, constructions, loads with schedules and a thermostat.
    pub(crate) fn seed_model() -> Model {
        let mut m = empty_model();
        m.meta.global_ventilation_l_s = Some(40.0);
        m.meta.n50_test_ach = None;
        let mut s0 = space(0xA0, true, SpaceType::CONDITIONED, 1.0, 3.0);
        s0.loads = Some(uid(0xB0));
        s0.thermostat = Some(uid(0xB8));
        let mut s1 = space(0xA1, true, SpaceType::UNCONDITIONED, 1.0, 2.5);
        s1.z = 3.0;
        s1.loads = Some(uid(0xB1));
        m.spaces = vec![s0, s1];
        m.cons.materials = vec![material(0xE0, 0.5), material_r(0xE1, 0.18)];
        m.cons.wallcons = vec![wallcons(0xC0, &[(0xE0, 0.25), (0xE1, 0.05)])];
        m.cons.glasses = vec![glass(0xF0)];
        m.cons.frames = vec![frame(0xF1)];
        m.cons.wincons = vec![wincons(0xD0, uid(0xF0), uid(0xF1))];
        let p = |x: f32, y: f32, z: f32| Some(point![x, y, z]);
        m.walls = vec![
            wall(1, BoundaryType::GROUND, uid(0xA0), None, uid(0xC0), 180.0, 0.0, rect(4.0, 5.0), p(0.0, 5.0, 0.0)),
            wall(2, BoundaryType::INTERIOR, uid(0xA1), Some(uid(0xA0)), uid(0xC0), 180.0, 0.0, rect(4.0, 5.0), p(0.0, 5.0, 3.0)),
            wall(3, BoundaryType::EXTERIOR, uid(0xA1), None, uid(0xC0), 0.0, 0.0, rect(4.0, 5.0), p(0.0, 0.0, 5.5)),
            wall(4, BoundaryType::EXTERIOR, uid(0xA0), None, uid(0xC0), 90.0, 0.0, rect(4.0, 3.0), p(0.0, 0.0, 0.0)),
            wall(5, BoundaryType::EXTERIOR, uid(0xA0), None, uid(0xC0), 90.0, 90.0, rect(5.0, 3.0), p(4.0, 0.0, 0.0)),
            wall(6, BoundaryType::ADIABATIC, uid(0xA0), None, uid(0xC0), 90.0, 180.0, rect(4.0, 3.0), p(4.0, 5.0, 0.0)),
            wall(7, BoundaryType::EXTERIOR, uid(0xA0), None, uid(0xC0), 90.0, -90.0, rect(5.0, 3.0), p(0.0, 5.0, 0.0)),
        ];
        m.windows = vec![window(0x11, uid(4), uid(0xD0), 1.5, 1.2, Some(point![1.0, 1.0]), 0.2), window(0x12, uid(5), uid(0xD0), 1.0, 1.0, Some(point![2.0, 1.0]), 0.0)];
        m.shades = vec![Shade { id: uid(0x31), name: "overhang".into(), geometry: WallGeom { tilt: 0.0, azimuth: 0.0, position: p(0.0, -1.0, 2.6), polygon: rect(4.0, 1.0) } }];
        m.thermal_bridges = vec![bridge(0x21, ThermalBridgeKind::CORNER, 6.0, 0.1), bridge(0x22, ThermalBridgeKind::WINDOW, 5.4, 0.2)];
        m.schedules.day = vec![
            ScheduleDay { id: uid(0x50), name: "work".into(), values: (0..24).map(|h| if (8..17).contains(&h) { 1.0 } else { 0.0 }).collect() },
            ScheduleDay { id: uid(0x51), name: "rest".into(), values: vec![0.0; 24] },
        ];
        m.schedules.week = vec![schedw(0x40, &[(0x50, 5), (0x51, 2)])];
        m.schedules.year = vec![sched(0x30, &[(0x40, 365)]), sched(0x31, &[(0x40, 100), (0x40, 265)])];
        m.loads = vec![
            SpaceLoads { id: uid(0xB0), name: "L0".into(), area_per_person: 10.0, people_schedule: Some(uid(0x30)), people_sensible: 6.0, people_latent: 3.0, equipment: 4.0, equipment_schedule: Some(uid(0x30)), lighting: 5.0, lighting_schedule: Some(uid(0x30)) },
            SpaceLoads { id: uid(0xB1), name: "L1".into(), area_per_person: 12.0, people_schedule: Some(uid(0x31)), people_sensible: 5.0, people_latent: 2.0, equipment: 2.0, equipment_schedule: None, lighting: 4.0, lighting_schedule: Some(uid(0x31)) },
        ];
        m.thermostats = vec![Thermostat { id: uid(0xB8), name: "T0".into(), temp_max: Some(uid(0x30)), temp_min: Some(uid(0x30)) }];
        m.overrides.walls.insert(uid(4), WallPropsOverrides { u_value: Some(0.4) });
        m
    }

    #[derive(Clone, Debug)]
    enum Edit {
        Delete,
        EmptyArray,
        DupFirst,
        Truncate,
        IdNil,
        IdAbsent,
        IdOther,
        Zero,
        Negate,
    }

    fn collect_paths(v: &serde_json::Value, path: &mut Vec<String>, out: &mut Vec<(Vec<String>, Edit)>) {
        use serde_json::Value::*;
        match v {
            Object(map) => {
                for (k, child) in map {
                    path.push(k.clone());
                    out.push((path.clone(), Edit::Delete));
                    collect_paths(child, path, out);
                    path.pop();
                }
            }
            Array(items) => {
                if !items.is_empty() {
                    out.push((path.clone(), Edit::EmptyArray));
                    out.push((path.clone(), Edit::DupFirst));
                    if items.len() >= 2 {
                        out.push((path.clone(), Edit::Truncate));
                    }
                }
                for (i, child) in items.iter().enumerate() {
                    path.push(i.to_string());
                    out.push((path.clone(), Edit::Delete));
                    collect_paths(child, path, out);
                    path.pop();
                }
            }
            String(st) => {
                if st.len() == 36 && Uuid::parse_str(st).is_ok() {
                    out.push((path.clone(), Edit::IdNil));
                    out.push((path.clone(), Edit::IdAbsent));
                    out.push((path.clone(), Edit::IdOther));
                }
            }
            Number(_) => {
                out.push((path.clone(), Edit::Zero));
                out.push((path.clone(), Edit::Negate));
            }
            _ => {}
        }
    }

    fn apply_edit(root: &mut serde_json::Value, path: &[String], e: &Edit) -> bool {
        use serde_json::Value;
        if let Edit::Delete = e {
            let (last, parent_path) = path.split_last().unwrap();
            let mut cur = root;
            for k in parent_path {
                cur = match cur {
                    Value::Object(m) => match m.get_mut(k) { Some(x) => x, None => return false },
                    Value::Array(a) => match k.parse::<usize>().ok().and_then(|i| a.get_mut(i)) { Some(x) => x, None => return false },
                    _ => return false,
                };
            }
            return match cur {
                Value::Object(m) => m.remove(last).is_some(),
                Value::Array(a) => match last.parse::<usize>() { Ok(i) if i < a.len() => { a.remove(i); true } _ => false },
                _ => false,
            };
        }
        let mut cur = root;
        for k in path {
            cur = match cur {
                Value::Object(m) => match m.get_mut(k) { Some(x) => x, None => return false },
                Value::Array(a) => match k.parse::<usize>().ok().and_then(|i| a.get_mut(i)) { Some(x) => x, None => return false },
                _ => return false,
            };
        }
        match (e, cur) {
            (Edit::EmptyArray, Value::Array(a)) => { a.clear(); true }
            (Edit::DupFirst, Value::Array(a)) if !a.is_empty() => { let f = a[0].clone(); a.push(f); true }
            (Edit::Truncate, Value::Array(a)) => { let n = a.len() / 2; a.truncate(n); true }
            (Edit::IdNil, v @ Value::String(_)) => { *v = Value::String(Uuid::nil().to_string()); true }
            (Edit::IdAbsent, v @ Value::String(_)) => { *v = Value::String(uid(0xDEAD_BEEF).to_string()); true }
            // an id that exists in the model, but names an element of another kind (a wall / a daily schedule)
            (Edit::IdOther, v @ Value::String(_)) => {
                let other = if v.as_str() == Some(uid(4).to_string().as_str()) { uid(0x50) } else { uid(4) };
                *v = Value::String(other.to_string());
                true
            }
            (Edit::Zero, v @ Value::Number(_)) => { *v = serde_json::json!(0); true }
            (Edit::Negate, v @ Value::Number(_)) => {
                let x = v.as_f64().unwrap_or(0.0);
                *v = if v.is_i64() || v.is_u64() { serde_json::json!(-(x as i64)) } else { serde_json::json!(-x) };
                true
            }
            _ => false,
        }
    }

    fn fingerprint(ind: &energy::EnergyIndicators) -> String {
        format!("{:?}|{:?}|{:?}|{:?}|{:?}|{}", ind.area_ref, ind.K_data.K, ind.n50_data.n50, ind.q_soljul_data.q_soljul, ind.compactness, ind.warnings.len())
    }

    fn c14_run(c: &mut Ctx, edits: &[(Vec<String>, Edit)], which: &[usize], base: &serde_json::Value, base_fp: &str) {
        let mut v = base.clone();
        let mut desc = vec![];
        for &k in which {
            let (path, e) = &edits[k];
            let ok = apply_edit(&mut v, path, e);
            desc.push(format!("{:?} @ /{}{}", e, path.join("/"), if ok { "" } else { " (n/a)" }));
        }
        c.note(desc.join(" ; "));
        let model: Model = match serde_json::from_value(v) {
            Ok(m) => m,
            Err(_) => {
                // the property quantifies over models that load
                c.check("C14.edit_loads_or_is_rejected", true, || String::new());
                return;
            }
        };
        let m2 = model.clone();
        let r = run_with_timeout(20, move || std::panic::catch_unwind(std::panic::AssertUnwindSafe(|| m2.energy_indicators())).map_err(|e| {
            if let Some(s) = e.downcast_ref::<&str>() { s.to_string() } else if let Some(s) = e.downcast_ref::<String>() { s.clone() } else { "panic".to_string() }
        }));
        match r {
            None => {
                c.check("C14.terminates", false, || "energy_indicators() did not return within 20 s".to_string());
                c.stop();
                return;
            }
            Some(Err(msg)) => c.check("C14.no_crash", false, || format!("energy_indicators() panicked: {}", msg)),
            Some(Ok(ind)) => {
                c.check("C14.no_crash", true, || String::new());
                c.check("C14.result_serialises", ind.as_json().is_ok(), || "result does not serialise".to_string());
                c.nontrivial(fingerprint(&ind));
            }
        }
        // a failure on one model never affects later computations in the same process
        let seed = seed_model();
        let again = std::panic::catch_unwind(std::panic::AssertUnwindSafe(|| seed.energy_indicators()));
        match again {
            Ok(ind) => c.check("C14.later_computation_unaffected", fingerprint(&ind) == base_fp, || format!("seed indicators changed: {} vs {}", fingerprint(&ind), base_fp)),
            Err(_) => c.check("C14.later_computation_unaffected", false, || "computing the (valid) seed model panics after the edited model was computed".to_string()),
        }
        c.sample(|| desc.join(" ; "));
    }

    #[test]
    fn n_c14_seed_closed() {
        drive("C14.seed", "the closed seed model (2 spaces, 7 positioned walls, 2 windows, shade, bridges, loads, schedules): every reported number finite, result serialises and loads back; also with n50 test value / existing building / each of 4 climate zones", |c| {
            use crate::climatedata::ClimateZone;
            let mut m = seed_model();
            m.meta.climate = c.of(&[ClimateZone::D3, ClimateZone::A3c, ClimateZone::E1, ClimateZone::Alfa1c]);
            m.meta.n50_test_ach = c.of(&[None, Some(4.5f32)]);
            m.meta.is_new_building = c.flag();
            c.note(format!("{:?} {:?} {}", m.meta.climate, m.meta.n50_test_ach, m.meta.is_new_building));
            c.check("C14.seed.closed", check(&m).is_empty(), || format!("seed is not closed: {:?}", check(&m).iter().map(|w| w.msg.clone()).collect::<Vec<_>>()));
            let ind = m.energy_indicators();
            let json = ind.as_json().unwrap();
            let back: Result<energy::EnergyIndicators, _> = serde_json::from_str(&json);
            c.check("C14.closed.loads_back", back.is_ok(), || format!("result JSON does not load back: {:?}", back.as_ref().err().map(|e| e.to_string())));
            // no NaN / inf anywhere: serde_json writes them as null; only Option fields may legitimately be null
            let v: serde_json::Value = serde_json::from_str(&json).unwrap();
            fn nulls(v: &serde_json::Value, path: &mut Vec<String>, out: &mut Vec<String>) {
                match v {
                    serde_json::Value::Null => out.push(path.join("/")),
                    serde_json::Value::Object(m) => for (k, x) in m { path.push(k.clone()); nulls(x, path, out); path.pop(); },
                    serde_json::Value::Array(a) => for (i, x) in a.iter().enumerate() { path.push(i.to_string()); nulls(x, path, out); path.pop(); },
                    _ => {}
                }
            }
            let mut out = vec![];
            nulls(&v, &mut vec![], &mut out);
            let allowed = ["space_next", "u_value_override", "f_shobst_override", "n_v", "illuminance", "veei", "thermostat", "loads", "n_50_test_ach", "people_schedule", "equipment_schedule", "lighting_schedule", "u_max", "u_min", "u_mean", "id"];
            let bad: Vec<&String> = out.iter().filter(|p| !allowed.iter().any(|a| p.ends_with(a))).collect();
            c.check("C14.closed.finite", bad.is_empty(), || format!("non-finite / missing figures at {:?}", bad));
            c.check("C14.closed.sane", ind.area_ref > 0.0 && ind.K_data.K > 0.0 && ind.n50_data.n50 > 0.0 && ind.q_soljul_data.q_soljul > 0.0 && ind.props.windows.values().all(|w| matches!(w.f_shobst, Some(f) if (0.0..=1.0).contains(&f))), || format!("{}", fingerprint(&ind)));
            c.nontrivial(fingerprint(&ind));
            c.sample(|| format!("{:?} -> {}", m.meta.climate, fingerprint(&ind)));
        });
    }

    // closed models of every size: the seed with whole parts left out, and the models the web editor passes through
    // while a building is entered element by element (empty model, a space, its floor, wall after wall, the windows)
    #[test]
    fn n_c14_closed_family() {
        drive("C14.closed_family", "closed models with positive sizes: the seed with {both, one, no} windows x shade {yes,no} x bridges {yes,no} x loads / thermostat / schedules {yes,no} x second space {yes,no} x wall override {yes,no}; and the 11 models an editor passes through from the empty model to the seed's first space with its 5 walls and 2 windows; each with every element placed / the windows / the walls without position: every reported number finite, the result serialises to JSON that loads back", |c| {
            let mut m = seed_model();
            let editor = c.flag();
            if editor {
                // 0: nothing; 1: the space; 2..=6: + its floor and walls one by one; 7, 8: + the windows; 9: + shade; 10: + bridges
                let step = c.pick(11);
                // the editor starts from Model::default() (no building-wide ventilation flow: with one and no volume yet the
                // air-change rate is infinite - not a model "with positive sizes")
                m.meta = Model::default().meta;
                m.spaces.truncate(1);
                m.walls.retain(|w| w.space == uid(0xA0));
                m.loads.clear();
                m.thermostats.clear();
                m.schedules = Default::default();
                m.overrides = Default::default();
                for s in m.spaces.iter_mut() {
                    s.loads = None;
                    s.thermostat = None;
                }
                if step == 0 {
                    m.spaces.clear();
                }
                m.walls.truncate(step.saturating_sub(1).min(5));
                let kept: Vec<Uuid> = m.walls.iter().map(|w| w.id).collect();
                m.windows.retain(|w| kept.contains(&w.wall));
                m.windows.truncate(step.saturating_sub(6).min(2));
                if step < 9 {
                    m.shades.clear();
                }
                if step < 10 {
                    m.thermal_bridges.clear();
                }
                if step < 2 {
                    m.cons = Default::default();
                }
                c.note(format!("editor step {}: {} spaces {} walls {} windows", step, m.spaces.len(), m.walls.len(), m.windows.len()));
            } else {
                let windows = c.pick(3);
                let (shade, bridges, loads, second, over) = (c.flag(), c.flag(), c.flag(), c.flag(), c.flag());
                m.windows.truncate(2 - windows);
                if !shade {
                    m.shades.clear();
                }
                if !bridges {
                    m.thermal_bridges.clear();
                }
                if !second {
                    m.spaces.truncate(1);
                    m.walls.retain(|w| w.space == uid(0xA0));
                    m.loads.retain(|l| l.id == uid(0xB0));
                }
                if !loads {
                    m.loads.clear();
                    m.thermostats.clear();
                    m.schedules = Default::default();
                    for s in m.spaces.iter_mut() {
                        s.loads = None;
                        s.thermostat = None;
                    }
                }
                if !over {
                    m.overrides = Default::default();
                }
                c.note(format!("seed with {} windows, shade {}, bridges {}, loads {}, second space {}, override {}", 2 - windows, shade, bridges, loads, second, over));
            }
            // windows / walls as the editor creates them, before a position is given (still a closed model with positive sizes)
            let unplaced = c.pick(3);
            if unplaced == 1 {
                for w in m.windows.iter_mut() {
                    w.geometry.position = None;
                }
            } else if unplaced == 2 {
                for w in m.walls.iter_mut() {
                    w.geometry.position = None;
                }
            }
            c.note(["every element placed", "windows without position", "walls without position"][unplaced].to_string());
            c.check("C14.seed.closed", check(&m).is_empty(), || format!("the model is not closed: {:?}", check(&m).iter().map(|w| w.msg.clone()).collect::<Vec<_>>()));
            let ind = m.energy_indicators();
            c.check("C14.closed.finite", ind.props.windows.values().all(|w| w.f_shobst.map(|f| f.is_finite()).unwrap_or(true)), || format!("a window's shading factor is not finite: {:?}", ind.props.windows.values().map(|w| w.f_shobst).collect::<Vec<_>>()));
            let json = match ind.as_json() {
                Ok(j) => j,
                Err(e) => {
                    c.check("C14.closed.loads_back", false, || format!("result does not serialise: {}", e));
                    return;
                }
            };
            let back: Result<energy::EnergyIndicators, _> = serde_json::from_str(&json);
            c.check("C14.closed.loads_back", back.is_ok(), || format!("result JSON does not load back: {:?}", back.as_ref().err().map(|e| e.to_string())));
            c.check("C14.closed.finite", [ind.area_ref, ind.compactness, ind.vol_env_net, ind.vol_env_gross, ind.K_data.K, ind.n50_data.n50, ind.n50_data.n50_ref, ind.q_soljul_data.q_soljul, ind.q_soljul_data.Q_soljul].iter().all(|x| x.is_finite()), || format!("{}", fingerprint(&ind)));
            if let Ok(b) = &back {
                c.check("C14.closed.loads_back_same", fingerprint(b) == fingerprint(&ind), || format!("loaded back as {} instead of {}", fingerprint(b), fingerprint(&ind)));
            }
            c.nontrivial(format!("{} {} {} {}", m.spaces.len(), m.walls.len(), m.windows.len(), fingerprint(&ind)));
        });
    }

    #[test]
    fn n_c14_single_edits() {
        let base = serde_json::to_value(&seed_model()).unwrap();
        let mut edits = vec![];
        collect_paths(&base, &mut vec![], &mut edits);
        let base_fp = fingerprint(&seed_model().energy_indicators());
        drive("C14.edit1", "every single structural edit of the seed model's JSON tree (delete key / array item; empty, duplicate-first, truncate array; redirect id to nil / absent / the id of another kind of element; zero / negate number)", |c| {
            let k = c.pick(edits.len());
            c14_run(c, &edits, &[k], &base, &base_fp);
        });
    }

    #[test]
    fn n_c14_triple_edits() {
        let base = serde_json::to_value(&seed_model()).unwrap();
        let mut edits = vec![];
        collect_paths(&base, &mut vec![], &mut edits);
        let base_fp = fingerprint(&seed_model().energy_indicators());
        let focus: Vec<usize> = edits.iter().enumerate().filter(|(_, (p, _))| matches!(p.first().map(|s| s.as_str()), Some("schedules") | Some("loads"))).map(|(i, _)| i).collect();
        drive("C14.edit3", "triples of structural edits: (every 2nd edit under schedules/loads) x (every 29th edit) x (every 31st edit) of the whole tree", |c| {
            let a = focus[2 * c.pick((focus.len() + 1) / 2)];
            let b = 29 * c.pick((edits.len() + 28) / 29);
            let d = 31 * c.pick((edits.len() + 30) / 31) + 7;
            if b >= edits.len() || d >= edits.len() || a == b || a == d || b == d {
                return;
            }
            c14_run(c, &edits, &[a, b, d], &base, &base_fp);
        });
    }

    #[test]
    fn n_c14_double_edits() {
        let base = serde_json::to_value(&seed_model()).unwrap();
        let mut edits = vec![];
        collect_paths(&base, &mut vec![], &mut edits);
        let base_fp = fingerprint(&seed_model().energy_indicators());
        // pairs: every edit of the schedule / loads / spaces / windows sub-trees with every 7th edit overall
        let focus: Vec<usize> = edits.iter().enumerate().filter(|(_, (p, _))| matches!(p.first().map(|s| s.as_str()), Some("schedules") | Some("loads") | Some("spaces") | Some("windows"))).map(|(i, _)| i).collect();
        drive("C14.edit2", "pairs of structural edits: (every edit under schedules/loads/spaces/windows) x (every 7th edit of the whole tree; every 3rd in the thorough tier)", |c| {
            let a = focus[c.pick(focus.len())];
            let step = if c.tier_thorough { 3 } else { 7 };
            let b = step * c.pick((edits.len() + step - 1) / step);
            if b >= edits.len() || a == b {
                return;
            }
            c14_run(c, &edits, &[a, b], &base, &base_fp);
        });
    }

    // ---- C04: the JSON model format is lossless, idempotent and stable -------------------------------------------
    /// A model that carries every kind of element; `flip(k)` toggles one optional / defaulted field between
    /// "absent or equal to its serde default" and "present and different from the default".
    const N_TOGGLES: usize = 34;

    fn toggled_model(flips: &[usize]) -> Model {
        let f = |k: usize| flips.contains(&k);
        let mut m = seed_model();
        // meta
        m.meta.name = if f(0) { String::new() } else { "Proyecto".into() };
        m.meta.global_ventilation_l_s = if f(1) { None } else { Some(40.0) };
        m.meta.n50_test_ach = if f(2) { Some(3.5) } else { None };
        m.meta.d_perim_insulation = if f(3) { 1.25 } else { 0.0 };
        m.meta.rn_perim_insulation = if f(4) { 0.75 } else { 0.0 };
        // space
        m.spaces[0].name = if f(5) { String::new() } else { "Salon".into() };
        m.spaces[0].multiplier = if f(6) { 2.0 } else { 1.0 };
        m.spaces[0].kind = if f(7) { SpaceType::UNINHABITED } else { SpaceType::CONDITIONED };
        m.spaces[0].inside_tenv = !f(8);
        m.spaces[0].z = if f(9) { -1.5 } else { 0.0 };
        m.spaces[0].n_v = if f(10) { Some(0.63) } else { None };
        m.spaces[0].illuminance = if f(11) { Some(300.0) } else { None };
        m.spaces[1].loads = if f(12) { None } else { Some(uid(0xB1)) };
        // walls / geometry
        m.walls[0].name = if f(13) { String::new() } else { "Solera".into() };
        m.walls[1].next_to = if f(14) { None } else { Some(uid(0xA0)) };
        m.walls[2].geometry.position = if f(15) { None } else { Some(point![0.0, 0.0, 5.5]) };
        m.walls[3].geometry.polygon = if f(16) { vec![] } else { rect(4.0, 3.0) };
        // windows
        m.windows[1].geometry.position = if f(17) { None } else { Some(point![2.0, 1.0]) };
        m.windows[0].name = if f(18) { String::new() } else { "V1".into() };
        // bridges: kind / l / psi equal to / different from their serde defaults (GENERIC, 0, 0)
        m.thermal_bridges[0].kind = if f(19) { ThermalBridgeKind::GENERIC } else { ThermalBridgeKind::CORNER };
        m.thermal_bridges[0].l = if f(20) { 0.0 } else { 6.0 };
        m.thermal_bridges[1].psi = if f(21) { 0.0 } else { 0.2 };
        // constructions: both material variants, optional vapour factor, optional shading factor, empty layers
        m.cons.materials[0].properties = MatProps::Detailed { conductivity: 0.5, density: 1000.0, specific_heat: 1000.0, vapour_diff: if f(22) { Some(10.0) } else { None } };
        m.cons.materials[1].properties = MatProps::Resistance { resistance: 0.18, vapour_diff: if f(23) { Some(1.0) } else { None } };
        m.cons.wincons[0].g_glshwi = if f(24) { Some(0.33) } else { None };
        if f(25) {
            m.cons.wallcons[0].layers.clear();
        }
        if f(26) {
            m.cons.glasses.clear();
        }
        // collections empty / not
        if f(27) {
            m.shades.clear();
        }
        if f(28) {
            m.schedules = SchedulesDb::default();
        }
        if f(29) {
            m.thermostats.clear();
        }
        // overrides
        if f(30) {
            m.overrides.walls.clear();
        }
        m.overrides.windows.clear();
        if f(31) {
            m.overrides.windows.insert(uid(0x11), WinPropsOverrides { u_value: Some(1.9), f_shobst: None });
            m.overrides.windows.insert(uid(0x12), WinPropsOverrides { u_value: None, f_shobst: Some(0.61) });
        }
        // loads / schedules with optional links
        m.loads[0].equipment_schedule = if f(32) { None } else { Some(uid(0x30)) };
        // the "extra" list of differences with HULC
        m.extra = if f(33) {
            Some(vec![ExtraData { name: "Solera".into(), bounds: BoundaryType::GROUND, spacetype: SpaceType::CONDITIONED, nextspace: None, nextspacetype: Some(SpaceType::UNINHABITED), tilt: Tilt::BOTTOM, cons: uid(0xC0), u: 0.53, computed_u: 0.49 }])
        } else {
            None
        };
        m
    }

    #[test]
    fn n_c04_roundtrip() {
        drive("C04.roundtrip", "Model::as_json / Model::from_json on a model with every kind of element: none, each single one and each pair of 34 optional / defaulted fields flipped (absent or default <-> present and different)", |c| {
            let mode = c.pick(3);
            let flips: Vec<usize> = match mode {
                0 => vec![],
                1 => vec![c.pick(N_TOGGLES)],
                _ => {
                    let a = c.pick(N_TOGGLES);
                    let b = c.pick(N_TOGGLES);
                    if b <= a {
                        return;
                    }
                    vec![a, b]
                }
            };
            c.note(format!("flipped fields {:?}", flips));
            let m = toggled_model(&flips);
            let json = match m.as_json() {
                Ok(j) => j,
                Err(e) => {
                    c.check("C04.serialises", false, || format!("as_json failed: {}", e));
                    return;
                }
            };
            let m2 = match Model::from_json(&json) {
                Ok(x) => x,
                Err(e) => {
                    c.check("C04.loads_back", false, || format!("from_json failed: {}", e));
                    return;
                }
            };
            // equal in every field: Debug prints every field of every element
            let (d1, d2) = (format!("{:?}", m), format!("{:?}", m2));
            c.check("C04.lossless", d1 == d2, || {
                let k = d1.bytes().zip(d2.bytes()).position(|(a, b)| a != b).unwrap_or(0);
                format!("loaded model differs near: ...{} <> ...{}", &d1[k.saturating_sub(60)..(k + 60).min(d1.len())], &d2[k.saturating_sub(60)..(k + 60).min(d2.len())])
            });
            // serialising again yields the identical text
            let json2 = m2.as_json().unwrap_or_default();
            c.check("C04.idempotent", json == json2, || "second serialisation differs from the first".to_string());
            // stable field names / types: the generic JSON value loads as well
            c.check("C04.valid_json", serde_json::from_str::<serde_json::Value>(&json).is_ok(), || "not valid JSON".to_string());
            c.nontrivial(format!("{:?}", flips));
            c.sample(|| format!("flips {:?}: {} bytes of JSON", flips, json.len()));
        });
    }

    // every model obtained from the full model by changing ONE value in its JSON text - a number to 0 / 1 / its negative,
    // a string to "", a flag flipped, a key removed, a list emptied - and that still loads, round-trips as well
    fn value_at<'a>(root: &'a mut serde_json::Value, path: &[String]) -> Option<&'a mut serde_json::Value> {
        let mut cur = root;
        for k in path {
            cur = match cur {
                serde_json::Value::Object(m) => m.get_mut(k)?,
                serde_json::Value::Array(a) => a.get_mut(k.parse::<usize>().ok()?)?,
                _ => return None,
            };
        }
        Some(cur)
    }

    fn leaf_paths(v: &serde_json::Value, path: &mut Vec<String>, out: &mut Vec<(Vec<String>, usize)>) {
        use serde_json::Value::*;
        match v {
            Object(map) => {
                for (k, child) in map {
                    path.push(k.clone());
                    out.push((path.clone(), 5)); // key removed
                    leaf_paths(child, path, out);
                    path.pop();
                }
            }
            Array(items) => {
                if !items.is_empty() {
                    out.push((path.clone(), 6)); // list emptied
                }
                for (i, child) in items.iter().enumerate().take(3) {
                    path.push(i.to_string());
                    leaf_paths(child, path, out);
                    path.pop();
                }
            }
            Number(_) => {
                for kind in 0..3 {
                    out.push((path.clone(), kind)); // 0, 1, negated
                }
            }
            String(st) => {
                if !(st.len() == 36 && Uuid::parse_str(st).is_ok()) {
                    out.push((path.clone(), 3)); // ""
                }
            }
            Bool(_) => out.push((path.clone(), 4)),
            Null => {}
        }
    }

    #[test]
    fn n_c04_edited_models() {
        let all: Vec<usize> = (0..N_TOGGLES).collect();
        // two full models: every optional field present and different from its default / every one absent or default
        let bases: Vec<serde_json::Value> = vec![
            serde_json::from_str(&toggled_model(&[]).as_json().unwrap()).unwrap(),
            serde_json::from_str(&toggled_model(&all[..]).as_json().unwrap()).unwrap(),
        ];
        let edits: Vec<Vec<(Vec<String>, usize)>> = bases.iter().map(|b| { let mut out = vec![]; leaf_paths(b, &mut vec![], &mut out); out }).collect();
        const KINDS: [&str; 7] = ["number -> 0", "number -> 1", "number negated", "string -> \"\"", "flag flipped", "key removed", "list emptied"];
        drive("C04.edited", "two generated models that carry every kind of element (optional fields all present / all absent), with ONE value of their JSON text changed (every number -> 0 / 1 / negated, every string -> \"\", every flag flipped, every key removed, every list emptied; first three items of each list): every edited text that still loads round-trips losslessly and idempotently", |c| {
            let b = c.pick(bases.len());
            let k = c.pick(edits[b].len());
            let (path, kind) = &edits[b][k];
            c.note(format!("base {} /{}: {}", b, path.join("/"), KINDS[*kind]));
            let mut v = bases[b].clone();
            let applied = match *kind {
                5 => {
                    let (last, parent) = path.split_last().unwrap();
                    match value_at(&mut v, parent) {
                        Some(serde_json::Value::Object(m)) => m.remove(last).is_some(),
                        _ => false,
                    }
                }
                _ => match value_at(&mut v, path) {
                    Some(x) => {
                        match (*kind, &*x) {
                            (0, serde_json::Value::Number(_)) => *x = serde_json::json!(0),
                            (1, serde_json::Value::Number(_)) => *x = serde_json::json!(1),
                            (2, serde_json::Value::Number(n)) => *x = if n.is_f64() { serde_json::json!(-n.as_f64().unwrap()) } else { serde_json::json!(-n.as_i64().unwrap_or(0)) },
                            (3, serde_json::Value::String(_)) => *x = serde_json::json!(""),
                            (4, serde_json::Value::Bool(f)) => *x = serde_json::json!(!*f),
                            (6, serde_json::Value::Array(_)) => *x = serde_json::json!([]),
                            _ => {}
                        }
                        true
                    }
                    None => false,
                },
            };
            if !applied {
                return;
            }
            let text = v.to_string();
            let m = match Model::from_json(&text) {
                Ok(m) => m,
                Err(_) => return, // the property quantifies over models
            };
            let json = m.as_json().unwrap_or_default();
            let m2 = match Model::from_json(&json) {
                Ok(x) => x,
                Err(e) => {
                    c.check("C04.loads_back", false, || format!("from_json failed on the model's own text: {}", e));
                    return;
                }
            };
            let (d1, d2) = (format!("{:?}", m), format!("{:?}", m2));
            c.check("C04.lossless", d1 == d2, || {
                let k = d1.bytes().zip(d2.bytes()).position(|(a, b)| a != b).unwrap_or(0);
                let cut = |s: &str| { let (mut a, mut b) = (k.saturating_sub(60), (k + 60).min(s.len())); while !s.is_char_boundary(a) { a -= 1; } while !s.is_char_boundary(b) { b -= 1; } s[a..b].to_string() };
                format!("loaded model differs near: ...{} <> ...{}", cut(&d1), cut(&d2))
            });
            c.check("C04.idempotent", m2.as_json().unwrap_or_default() == json, || "second serialisation differs from the first".to_string());
            c.nontrivial(format!("{} {} {}", b, path.join("/"), kind));
            c.sample(|| format!("base {} /{}: {} -> round-trips", b, path.join("/"), KINDS[*kind]));
        });
    }

    // every model file shipped with the repository loads and re-serialises to the same JSON value
    #[test]
    fn n_c04_shipped_models() {
        let files: Vec<(&str, &str)> = vec![
            ("cajazapatos_bombacaloracs.json", include_str!(concat!(env!("CARGO_MANIFEST_DIR"), "/tests/data/cajazapatos_bombacaloracs.json"))),
            ("caso_a.json", include_str!(concat!(env!("CARGO_MANIFEST_DIR"), "/tests/data/caso_a.json"))),
            ("cubo.json", include_str!(concat!(env!("CARGO_MANIFEST_DIR"), "/tests/data/cubo.json"))),
            ("cubo_gt_caldera_radiadores.json", include_str!(concat!(env!("CARGO_MANIFEST_DIR"), "/tests/data/cubo_gt_caldera_radiadores.json"))),
            ("e4h_medianeras.json", include_str!(concat!(env!("CARGO_MANIFEST_DIR"), "/tests/data/e4h_medianeras.json"))),
            ("ejemplo_gt_aerotermia.json", include_str!(concat!(env!("CARGO_MANIFEST_DIR"), "/tests/data/ejemplo_gt_aerotermia.json"))),
            ("ejemploviv_unif.json", include_str!(concat!(env!("CARGO_MANIFEST_DIR"), "/tests/data/ejemploviv_unif.json"))),
        ];
        drive("C04.shipped", "the 7 model files under bemodel/tests/data: load, re-serialise, compare JSON values; second round trip identical", |c| {
            let (name, text) = c.of(&files);
            c.note(name.to_string());
            let m = match Model::from_json(text) {
                Ok(m) => m,
                Err(e) => {
                    c.check("C04.shipped.loads", false, || format!("{} does not load: {}", name, e));
                    return;
                }
            };
            let out = m.as_json().unwrap();
            let (v_in, v_out): (serde_json::Value, serde_json::Value) = (serde_json::from_str(text).unwrap(), serde_json::from_str(&out).unwrap());
            // compare values (numbers through f32: the file's decimal text and the re-printed one denote the same f32)
            fn diff(a: &serde_json::Value, b: &serde_json::Value, path: &mut Vec<String>, out: &mut Vec<String>) {
                use serde_json::Value::*;
                match (a, b) {
                    (Object(x), Object(y)) => {
                        for k in x.keys().chain(y.keys()) {
                            path.push(k.clone());
                            match (x.get(k), y.get(k)) {
                                (Some(p), Some(q)) => diff(p, q, path, out),
                                (Some(_), None) => out.push(format!("dropped: /{}", path.join("/"))),
                                (None, Some(_)) => out.push(format!("added: /{}", path.join("/"))),
                                _ => {}
                            }
                            path.pop();
                        }
                    }
                    (Array(x), Array(y)) => {
                        if x.len() != y.len() {
                            out.push(format!("array length {} -> {} at /{}", x.len(), y.len(), path.join("/")));
                        }
                        for (i, (p, q)) in x.iter().zip(y.iter()).enumerate() {
                            path.push(i.to_string());
                            diff(p, q, path, out);
                            path.pop();
                        }
                    }
                    (Number(x), Number(y)) => {
                        let (fx, fy) = (x.as_f64().unwrap_or(f64::NAN) as f32, y.as_f64().unwrap_or(f64::NAN) as f32);
                        if fx != fy {
                            out.push(format!("number {} -> {} at /{}", x, y, path.join("/")));
                        }
                    }
                    (p, q) => {
                        if p != q {
                            out.push(format!("value {} -> {} at /{}", p, q, path.join("/")));
                        }
                    }
                }
            }
            let mut d = vec![];
            diff(&v_in, &v_out, &mut vec![], &mut d);
            d.dedup();
            c.check("C04.shipped.same_value", d.is_empty(), || format!("{}: {} differences, first: {:?}", name, d.len(), &d[..d.len().min(4)]));
            let m2 = Model::from_json(&out).unwrap();
            c.check("C04.shipped.idempotent", m2.as_json().unwrap() == out, || format!("{}: second serialisation differs", name));
            c.check("C04.shipped.lossless", format!("{:?}", m) == format!("{:?}", m2), || format!("{}: reloaded model differs", name));
            c.nontrivial(name.to_string());
            c.sample(|| format!("{}: {} spaces {} walls {} windows", name, m.spaces.len(), m.walls.len(), m.windows.len()));
        });
    }
}
