// Contracts for bemodel/src/energy/transmittance.rs (U-values of opaque elements and windows) and the
// solar-factor helpers of radiation.rs. Child module of `energy::transmittance`, so private methods are in reach.
#![allow(dead_code, unused_imports, non_snake_case, clippy::all)]

use crate::{
    BoundaryType, ConsDb, Frame, Glass, Layer, MatProps, Material, Model, Space, SpaceType, Tilt, Uuid, Wall,
    WallCons, WallGeom, WinCons,
};

pub(crate) fn mk_wall(tilt: f32, bounds: BoundaryType) -> Wall {
    Wall {
        id: Uuid::nil(),
        name: String::new(),
        bounds,
        cons: Uuid::nil(),
        space: Uuid::nil(),
        next_to: None,
        geometry: WallGeom { tilt, azimuth: 0.0, position: None, polygon: vec![] },
    }
}

/// Rsi of EN ISO 6946 by heat-flow direction, from the tilt class of the element
/// (upwards 0.10 through roofs, horizontal 0.13 through walls, downwards 0.17 through floors)
pub(crate) fn rsi_6946(tilt: f32) -> f64 {
    let t = tilt;
    if t <= 60.0 || t >= 300.0 {
        0.10
    } else if t < 120.0 || t >= 240.0 {
        0.13
    } else {
        0.17
    }
}

#[cfg(kani)]
mod k {
    use super::*;

    fn any_f32_in(lo: f32, hi: f32) -> f32 {
        let v: f32 = kani::any();
        kani::assume(v >= lo && v <= hi);
        v
    }

    // C06.uext.value: U = 1/(Rsi + R + Rse) to two decimals, Rsi by heat-flow direction, Rse = 0.04.
    // Cross-multiplied so the oracle needs no division: |U*D - 1| <= 0.0051*D + 1e-4  with D = R + Rsi + Rse.
    // The domain R in [0,100] is split by binade (fixed exponent => the division circuit is much cheaper to
    // decide); the union of the pieces is the whole interval, so together they are a complete proof.
    fn uext_value_on(lo: f32, hi: f32) {
        let r = any_f32_in(lo, hi);
        let tilt = any_f32_in(0.0, 360.0);
        let w = mk_wall(tilt, BoundaryType::EXTERIOR);
        kani::cover!(true, "precondition satisfiable");
        let u = w.u_value_exterior(Some(r));
        assert!(u.is_some(), "C06.uext.some");
        let u = u.unwrap();
        let d = r as f64 + rsi_6946(tilt) + 0.04;
        let lhs = (u as f64) * d - 1.0;
        assert!(lhs.abs() <= 0.0051 * d + 1.0e-4, "C06.uext.value");
    }

    macro_rules! uext_piece {
        ($name:ident, $lo:expr, $hi:expr) => {
            #[kani::proof]
            #[kani::stub_verified(crate::utils::fround2)]
            fn $name() {
                uext_value_on($lo, $hi);
            }
        };
    }
    uext_piece!(c06_uext_value_p0, 0.0, 0.0625);
    uext_piece!(c06_uext_value_p1, 0.0625, 0.25);
    uext_piece!(c06_uext_value_p2, 0.25, 0.5);
    uext_piece!(c06_uext_value_p3, 0.5, 1.0);
    uext_piece!(c06_uext_value_p4, 1.0, 2.0);
    uext_piece!(c06_uext_value_p5, 2.0, 4.0);
    uext_piece!(c06_uext_value_p6, 4.0, 8.0);
    uext_piece!(c06_uext_value_p7, 8.0, 16.0);
    uext_piece!(c06_uext_value_p8, 16.0, 32.0);
    uext_piece!(c06_uext_value_p9, 32.0, 64.0);
    uext_piece!(c06_uext_value_p10, 64.0, 100.0);

    #[kani::proof]
    fn c06_uext_none() {
        let tilt: f32 = kani::any();
        kani::assume(tilt.is_finite());
        let w = mk_wall(tilt, BoundaryType::EXTERIOR);
        assert!(w.u_value_exterior(None).is_none(), "C06.uext.none");
    }

    // C06.gnd: a basement wall that is not buried (|z| < 1 cm) has the U of the same wall in outside air;
    // a buried roof keeps it as well.
    #[kani::proof]
    fn c06_gnd_notburied() {
        let z = any_f32_in(-0.0099, 0.0099);
        let u_w: f32 = kani::any();
        let d_t: f32 = kani::any();
        let h: f32 = kani::any();
        kani::assume(u_w.is_finite() && d_t.is_finite() && h.is_finite());
        let w = mk_wall(90.0, BoundaryType::GROUND);
        kani::cover!(true, "precondition satisfiable");
        assert!(w.u_value_gnd_wall(z, u_w, d_t, h) == u_w, "C06.gnd.wall.notburied");
        assert!(w.u_value_gnd_top(u_w) == u_w, "C06.gnd.top.identity");
    }

    // ---- C07: window constructions ------------------------------------------------------------
    #[derive(Clone, Copy, PartialEq)]
    enum Link {
        Present,
        Nil,
        Dangling,
    }

    fn any_link() -> Link {
        let k: u8 = kani::any();
        kani::assume(k < 3);
        match k {
            0 => Link::Present,
            1 => Link::Nil,
            _ => Link::Dangling,
        }
    }

    fn id(n: u128) -> Uuid {
        Uuid::from_u128(n)
    }

    fn mk_db(ug: f32, ggl: f32, uf: f32) -> ConsDb {
        ConsDb {
            wallcons: vec![],
            wincons: vec![],
            materials: vec![],
            glasses: vec![Glass { id: id(0x11), name: String::new(), u_value: ug, g_gln: ggl }],
            frames: vec![Frame { id: id(0x22), name: String::new(), u_value: uf, absorptivity: 0.6 }],
        }
    }

    fn link_id(l: Link, present: u128) -> Uuid {
        match l {
            Link::Present => id(present),
            Link::Nil => Uuid::nil(),
            Link::Dangling => id(0x99),
        }
    }

    // C07.u.none: a construction has a U-value exactly when both its glazing and its frame resolve
    // (the numeric formula is checked by the bounded obligation C07.u.value: 4 multiplications + division are
    // beyond CBMC in the full float domain, see DESIGN.md)
    #[kani::proof]
    #[kani::unwind(18)]
    #[kani::stub_verified(crate::utils::fround2)]
    fn c07_wincons_u() {
        let ug = any_f32_in(0.1, 10.0);
        let uf = any_f32_in(0.1, 10.0);
        let ff = any_f32_in(0.0, 1.0);
        let du = any_f32_in(0.0, 50.0);
        let (lg, lf) = (any_link(), any_link());
        let db = mk_db(ug, 0.7, uf);
        let wc = WinCons {
            id: id(0x33),
            name: String::new(),
            glass: link_id(lg, 0x11),
            frame: link_id(lf, 0x22),
            f_f: ff,
            delta_u: du,
            g_glshwi: None,
            c_100: 27.0,
        };
        kani::cover!(lg == Link::Present && lf == Link::Present, "resolving case reachable");
        let u = wc.u_value(&db);
        assert!(u.is_some() == (lg == Link::Present && lf == Link::Present), "C07.u.none");
    }

    #[kani::proof]
    #[kani::unwind(18)]
    fn c07_wincons_g() {
        let ggl = any_f32_in(0.0, 1.0);
        let lg = any_link();
        let user: Option<f32> = if kani::any() { Some(any_f32_in(0.0, 1.0)) } else { None };
        let db = mk_db(2.0, ggl, 2.0);
        let wc = WinCons {
            id: id(0x33),
            name: String::new(),
            glass: link_id(lg, 0x11),
            frame: id(0x22),
            f_f: 0.2,
            delta_u: 0.0,
            g_glshwi: user,
            c_100: 27.0,
        };
        kani::cover!(lg == Link::Present && user.is_none(), "fallback case reachable");
        let g = wc.g_glwi(&db);
        assert!(g.is_some() == (lg == Link::Present), "C07.g.wi.none");
        if let Some(g) = g {
            assert!((g as f64 - 0.90 * ggl as f64).abs() <= 0.0051 + 1.0e-4, "C07.g.wi.value");
        }
        let gs = wc.g_glshwi(&db);
        match user {
            Some(v) => {
                assert!(gs.is_some(), "C07.g.shwi.user");
                assert!((gs.unwrap() as f64 - v as f64).abs() <= 0.0051 + 1.0e-4, "C07.g.shwi.user");
            }
            None => assert!(gs == g, "C07.g.shwi.fallback"),
        }
    }
}

// =====================================================================================================
// Native bounded obligations
// =====================================================================================================
#[cfg(verif_native)]
mod n {
    use super::*;
    use crate::verif_root::mk::*;
    use crate::verif_root::support::*;
    use crate::types::HasSurface;

    fn rsi(class: Tilt) -> f64 {
        match class {
            Tilt::TOP => 0.10,
            Tilt::SIDE => 0.13,
            Tilt::BOTTOM => 0.17,
        }
    }

    fn round2(x: f64) -> f64 {
        (x * 100.0).round() / 100.0
    }

    // ---- C06.resistance ---------------------------------------------------------------------------------
    #[test]
    fn n_c06_resistance() {
        drive("C06.resistance", "WallCons::resistance: 0..3 layers, each material in {detailed 0.5 W/mK, detailed 0.04, resistance-only 0.18, detailed with conductivity 0, not in the model} x thickness {0.01, 0.2}", |c| {
            let mut db = ConsDb::default();
            db.materials = vec![material(0xE0, 0.5), material(0xE1, 0.04), material_r(0xE2, 0.18), material(0xE3, 0.0)];
            let n = c.pick(4);
            let mut layers = vec![];
            let mut want: Option<f64> = Some(0.0);
            for _ in 0..n {
                let m = c.pick(5) as u128;
                let e = c.of(&[0.01f32, 0.2]);
                layers.push((0xE0 + m, e));
                let r = match m {
                    0 => Some(e as f64 / 0.5),
                    1 => Some(e as f64 / 0.04),
                    2 => Some(0.18),
                    _ => None,
                };
                want = match (want, r) {
                    (Some(a), Some(b)) => Some(a + b),
                    _ => None,
                };
            }
            c.note(format!("{:?}", layers));
            let wc = wallcons(0xC0, &layers);
            let got = wc.resistance(&db);
            match want {
                None => c.check("C06.resistance.err", got.is_err(), || format!("resistance {:?} for a construction with a missing / non-conducting material", got.as_ref().ok())),
                Some(w) => {
                    c.check("C06.resistance.value", matches!(&got, Ok(r) if approx64(*r, w, 1e-5, 1e-6)), || format!("resistance {:?} want {}", got.as_ref().ok(), w));
                    // appending a layer or thickening one never decreases the resistance
                    let r0 = got.unwrap_or(f32::NAN);
                    for extra in [(0xE0u128, 0.05f32), (0xE2, 0.05)] {
                        let mut l2 = layers.clone();
                        l2.push(extra);
                        let r2 = wallcons(0xC1, &l2).resistance(&db).unwrap();
                        c.check("C06.resistance.monotone.append", r2 >= r0, || format!("appending {:?}: {} -> {}", extra, r0, r2));
                    }
                    for k in 0..layers.len() {
                        let mut l2 = layers.clone();
                        l2[k].1 *= 1.5;
                        let r2 = wallcons(0xC1, &l2).resistance(&db).unwrap();
                        c.check("C06.resistance.monotone.thicken", r2 >= r0, || format!("thickening layer {}: {} -> {}", k, r0, r2));
                    }
                    if w > 0.0 {
                        c.nontrivial(format!("{:?}", layers));
                    }
                }
            }
            c.sample(|| format!("{:?} -> {:?}", layers, wc.resistance(&db).ok()));
        });
    }

    // ---- C06.uint.value: partition between a conditioned and an unconditioned space --------------------------
    #[test]
    fn n_c06_uint_value() {
        drive("C06.uint.value", "Wall::u_value_interior_cond_uncond on a grid: A_i {0.5,12,300} x R_f {0.15,0.6,1,4} x sum(A_e U_e) {0,3.5,80} x q {0,15,400}", |c| {
            let a_i = c.of(&[0.5f32, 12.0, 300.0]);
            let r_f = c.of(&[0.15f32, 0.6, 1.0, 4.0]);
            let ua = c.of(&[0.0f32, 3.5, 80.0]);
            let q = c.of(&[0.0f32, 15.0, 400.0]);
            c.note(format!("A_i={} R_f={} UA={} q={}", a_i, r_f, ua, q));
            let w = mk_wall(90.0, BoundaryType::INTERIOR);
            let u = w.u_value_interior_cond_uncond(a_i, r_f, ua, q);
            let h = ua as f64 + 0.33 * q as f64;
            let want = if h == 0.0 { 0.0 } else { 1.0 / (r_f as f64 + a_i as f64 / h) };
            c.check("C06.uint.value", matches!(u, Some(u) if (u as f64 - want).abs() <= 0.0051), || format!("U = {:?} want {}", u, want));
            // never increases with the element's own resistance
            let u2 = w.u_value_interior_cond_uncond(a_i, r_f * 1.25, ua, q);
            c.check("C06.uint.monotone", u2 <= u, || format!("R_f {} -> {}: U {:?} -> {:?}", r_f, r_f * 1.25, u, u2));
            c.check("C06.uint.below_unprotected", matches!(u, Some(u) if (u as f64) <= 1.0 / r_f as f64 + 0.0051), || format!("U {:?} above 1/R_f", u));
            if h > 0.0 {
                c.nontrivial(format!("{} {} {} {}", a_i, r_f, ua, q));
            }
            c.sample(|| format!("A_i={} R_f={} UA={} q={} -> {:?}", a_i, r_f, ua, q, u));
        });
    }

    // ---- C06.uext.mono: more resistance never increases U (float level, bounded grid) --------------------------
    #[test]
    fn n_c06_uext_mono() {
        drive("C06.uext.mono", "Wall::u_value_exterior: 3 tilt classes x 400 resistances on a geometric grid 0.001..100: value to two decimals and exact monotonicity between neighbours", |c| {
            let tilt = c.of(&[0.0f32, 90.0, 180.0]);
            let k = c.pick(400);
            let r = 0.001f32 * (1.0292f32).powi(k as i32);
            let r2 = 0.001f32 * (1.0292f32).powi(k as i32 + 1);
            let w = mk_wall(tilt, BoundaryType::EXTERIOR);
            let (u, u2) = (w.u_value_exterior(Some(r)).unwrap(), w.u_value_exterior(Some(r2)).unwrap());
            c.note(format!("tilt {} r {} -> {}", tilt, r, r2));
            let want = 1.0 / (r as f64 + rsi_6946(tilt) + 0.04);
            c.check("C06.uext.value", (u as f64 - want).abs() <= 0.0051, || format!("U {} want {}", u, want));
            c.check("C06.uext.mono", u2 <= u, || format!("R {} -> {} but U {} -> {}", r, r2, u, u2));
            c.nontrivial(format!("{} {}", tilt, k));
            c.sample(|| format!("tilt {} R {} -> U {}", tilt, r, u));
        });
    }

    // ---- C06.dispatch: Wall::u_value(model) ------------------------------------------------------------------
    const KINDS3: [SpaceType; 3] = [SpaceType::CONDITIONED, SpaceType::UNCONDITIONED, SpaceType::UNINHABITED];
    const BOUNDS: [BoundaryType; 4] = [BoundaryType::EXTERIOR, BoundaryType::ADIABATIC, BoundaryType::INTERIOR, BoundaryType::GROUND];

    #[test]
    fn n_c06_dispatch() {
        drive(
            "C06.dispatch",
            "Wall::u_value(&Model): wall over 4 boundary kinds x tilt {0,90,180} x adjacent {none, s1, dangling} x construction {ok, not in model, with missing material} x own space {s0, dangling}; s0 / s1 over 3 kinds; s1 ventilation {none, 0.8 1/h}; building ventilation {none, 30 l/s} (then s0 with multiplier {1, 3}); s1 bounded by a slab on the ground and an exterior wall with a window",
            |c| {
                let b = c.of(&BOUNDS);
                let tilt = c.of(&[0.0f32, 90.0, 180.0]);
                let nx = c.pick(3);
                let cons = c.pick(3);
                let own = c.pick(2);
                let k0 = c.of(&KINDS3);
                let k1 = c.of(&KINDS3);
                let nv1 = c.of(&[None, Some(0.8f32)]);
                let vent = c.of(&[None, Some(30.0f32)]);
                let mut m = empty_model();
                m.meta.global_ventilation_l_s = vent;
                // the building-wide rate spreads the flow over the volume of every instance of a space
                let mult0 = if vent.is_some() { c.of(&[1.0f32, 3.0]) } else { 1.0 };
                m.spaces.push(space(0xA0, true, k0, mult0, 3.0));
                let mut s1 = space(0xA1, true, k1, 1.0, 2.5);
                s1.n_v = nv1;
                m.spaces.push(s1);
                m.cons.materials = vec![material(0xE0, 0.5), material_r(0xE2, 0.18)];
                m.cons.wallcons = vec![wallcons(0xC0, &[(0xE0, 0.25), (0xE2, 0.0)]), wallcons(0xC2, &[(0xE0, 0.25), (0xEE, 0.1)])];
                m.cons.glasses = vec![glass(0xF0)];
                m.cons.frames = vec![frame(0xF1)];
                m.cons.wincons = vec![wincons(0xD0, uid(0xF0), uid(0xF1))];
                let r_cons = 0.25f64 / 0.5 + 0.18;
                // s0: floor over outside air (so that its area is defined without ground formulas)
                m.walls.push(wall(1, BoundaryType::EXTERIOR, uid(0xA0), None, uid(0xC0), 180.0, 0.0, rect(4.0, 5.0), None));
                // s1: slab on the ground 3x5, exterior wall 3x2.5 with a 1x1 window
                m.walls.push(wall(2, BoundaryType::GROUND, uid(0xA1), None, uid(0xC0), 180.0, 0.0, rect(3.0, 5.0), None));
                m.walls.push(wall(3, BoundaryType::EXTERIOR, uid(0xA1), None, uid(0xC0), 90.0, 0.0, rect(3.0, 2.5), None));
                m.windows.push(window(0x11, uid(3), uid(0xD0), 1.0, 1.0, None, 0.0));
                // the wall under contract
                let cid = [uid(0xC0), uid(0xCC), uid(0xC2)][cons];
                let sid = [uid(0xA0), uid(0x9999)][own];
                let nid = [None, Some(uid(0xA1)), Some(uid(0x9998))][nx];
                let w = wall(9, b, sid, nid, cid, tilt, 0.0, rect(4.0, 3.0), None);
                m.walls.push(w.clone());
                c.note(format!("{:?} tilt {} next#{} cons#{} own#{} k0 {:?} k1 {:?} n_v {:?} vent {:?}", b, tilt, nx, cons, own, k0, k1, nv1, vent));
                let got = w.u_value(&m);
                let class = if tilt == 0.0 { Tilt::TOP } else if tilt == 90.0 { Tilt::SIDE } else { Tilt::BOTTOM };
                let u_ext = 1.0 / (r_cons + rsi(class) + 0.04);
                let close = |got: Option<f32>, want: f64| matches!(got, Some(u) if (u as f64 - want).abs() <= 0.0051 + 1e-4 * want);
                if cons != 0 {
                    c.check("C06.dispatch.no_construction", got.is_none(), || format!("U = {:?} for an element whose construction / material is missing", got));
                    return;
                }
                match b {
                    BoundaryType::EXTERIOR | BoundaryType::ADIABATIC => {
                        c.check("C06.dispatch.air", close(got, u_ext), || format!("U = {:?} want {}", got, u_ext));
                    }
                    BoundaryType::GROUND => {
                        if own == 1 {
                            c.check("C06.dispatch.ground.no_space", got.is_none(), || format!("U = {:?} without a space", got));
                        } else if class == Tilt::TOP {
                            // (s0 has no slab on the ground; whether a buried roof then has a value is not part of the statement)
                            c.check("C06.dispatch.ground.roof", got.is_none() || close(got, u_ext), || format!("buried roof U = {:?} want {}", got, u_ext));
                        } else if class == Tilt::SIDE {
                            // s0 has no slab on the ground: no equivalent thickness, hence no value (nothing to report)
                            c.check("C06.dispatch.ground.wall_without_slab", got.is_none() || close(got, u_ext), || format!("U = {:?}", got));
                        }
                    }
                    BoundaryType::INTERIOR => {
                        if own == 1 {
                            c.check("C06.dispatch.interior.no_space", got.is_none(), || format!("U = {:?} without own space", got));
                            return;
                        }
                        match nx {
                            0 => {
                                let want = 1.0 / (r_cons + 2.0 * rsi(class));
                                c.check("C06.dispatch.interior.no_adjacent", close(got, want), || format!("U = {:?} want {}", got, want));
                            }
                            2 => c.check("C06.dispatch.interior.dangling_adjacent", got.is_none(), || format!("U = {:?} with a missing adjacent space", got)),
                            _ => {
                                let this_cond = k0 == SpaceType::CONDITIONED;
                                let next_cond = k1 == SpaceType::CONDITIONED;
                                if this_cond == next_cond {
                                    // equally conditioned: a plain partition, between the two extreme surface resistances
                                    let (lo, hi) = (1.0 / (r_cons + 0.34), 1.0 / (r_cons + 0.20));
                                    c.check("C06.dispatch.interior.equal", matches!(got, Some(u) if (u as f64) >= lo - 0.006 && (u as f64) <= hi + 0.006), || format!("U = {:?} outside [{}, {}]", got, lo, hi));
                                } else {
                                    // heat flows from the conditioned to the unconditioned space
                                    let down = (class == Tilt::BOTTOM && this_cond) || (class == Tilt::TOP && next_cond);
                                    let up = (class == Tilt::TOP && this_cond) || (class == Tilt::BOTTOM && next_cond);
                                    let r_f = r_cons + 2.0 * if down { 0.17 } else if up { 0.10 } else { 0.13 };
                                    // floor area and net height of both spaces from their definitions (the wall under
                                    // contract may itself be a floor of s0 or the ceiling of s1)
                                    let is_floor_of_s0 = class == Tilt::BOTTOM;
                                    let is_ceiling_of_s1 = class == Tilt::BOTTOM; // a floor of s0 given from above covers s1
                                    let is_roof_of_s0 = class == Tilt::TOP;
                                    let area0 = 20.0 + if is_floor_of_s0 { 12.0 } else { 0.0 };
                                    let area1 = 15.0;
                                    let hnet0 = 3.0 - if is_roof_of_s0 { 0.25 } else { 0.0 };
                                    let hnet1 = 2.5 - if is_ceiling_of_s1 { 0.25 } else { 0.0 };
                                    let a_i = 12.0f64;
                                    // the unconditioned space and its losses to the outside
                                    let unc_is_s1 = this_cond;
                                    let u_floor = round2(1.0 / (r_cons + 0.17 + 0.04));
                                    let (ua, vol, nv) = if unc_is_s1 {
                                        let u_wall = round2(1.0 / (r_cons + 0.13 + 0.04));
                                        let u_win = round2(1.1 * (0.25 * 2.2 + 0.75 * 1.4));
                                        // the slab of s1 is in contact with the ground: its U comes from the ground formulas,
                                        // which C06.ground checks on their own; here only the aggregation is under contract
                                        let u_slab = m.walls[1].u_value(&m).unwrap_or(f32::NAN) as f64;
                                        (15.0 * u_slab + (7.5 - 1.0) * u_wall + 1.0 * u_win, area1 * hnet1, nv1)
                                    } else {
                                        (20.0 * u_floor, area0 * hnet0, None)
                                    };
                                    // building-wide rate: 3.6 * l/s / net volume of the habitable spaces inside the envelope
                                    let hab = |k: SpaceType| k != SpaceType::UNINHABITED;
                                    let vinh = (if hab(k0) { area0 * hnet0 * mult0 as f64 } else { 0.0 }) + (if hab(k1) { area1 * hnet1 } else { 0.0 });
                                    let n = match nv {
                                        Some(n) => n as f64,
                                        None => match vent {
                                            Some(l) if vinh > 0.0 => round2(3.6 * l as f64 / round2(vinh) * 1.0e6) / 1.0e6,
                                            Some(_) => f64::INFINITY,
                                            None => 0.0,
                                        },
                                    };
                                    let h = ua + 0.33 * n * vol;
                                    let want = 1.0 / (r_f + a_i / h);
                                    c.check("C06.dispatch.interior.cond_uncond", close(got, want), || format!("U = {:?} want {} (R_f {} UA {} n {} V {})", got, want, r_f, ua, n, vol));
                                    c.nontrivial(format!("{} {:?} {:?} {:?} {:?}", tilt, k0, k1, nv1, vent));
                                }
                            }
                        }
                    }
                }
                c.sample(|| format!("{:?} tilt {} next#{} k0 {:?} k1 {:?} -> {:?}", b, tilt, nx, k0, k1, got));
            },
        );
    }

    // ---- C07: window construction values and downstream defaults -------------------------------------------------
    #[test]
    fn n_c07_wincons_value() {
        drive("C07.u.value", "WinCons::u_value / g_glwi / g_glshwi on a grid: U_g {0.6,1.4,5.7} x U_f {1.0,2.2,5.9} x F_f {0,0.2,0.55,1} x dU {0,10,50} x g_gl;n {0.35,0.85} x user shading factor {none,0.12}", |c| {
            let ug = c.of(&[0.6f32, 1.4, 5.7]);
            let uf = c.of(&[1.0f32, 2.2, 5.9]);
            let ff = c.of(&[0.0f32, 0.2, 0.55, 1.0]);
            let du = c.of(&[0.0f32, 10.0, 50.0]);
            let ggl = c.of(&[0.35f32, 0.85]);
            let user = c.of(&[None, Some(0.12f32)]);
            c.note(format!("Ug {} Uf {} Ff {} dU {} ggl {} user {:?}", ug, uf, ff, du, ggl, user));
            let mut db = ConsDb::default();
            db.glasses = vec![Glass { id: uid(0xF0), name: "g".into(), u_value: ug, g_gln: ggl }];
            db.frames = vec![Frame { id: uid(0xF1), name: "f".into(), u_value: uf, absorptivity: 0.6 }];
            let wc = WinCons { id: uid(0xD0), name: "x".into(), glass: uid(0xF0), frame: uid(0xF1), f_f: ff, delta_u: du, g_glshwi: user, c_100: 27.0 };
            let u = wc.u_value(&db);
            let want = (1.0 + du as f64 / 100.0) * (ff as f64 * uf as f64 + (1.0 - ff as f64) * ug as f64);
            c.check("C07.u.value", matches!(u, Some(u) if (u as f64 - want).abs() <= 0.0051), || format!("U = {:?} want {}", u, want));
            let (lo, hi) = (ug.min(uf) as f64 * (1.0 + du as f64 / 100.0), ug.max(uf) as f64 * (1.0 + du as f64 / 100.0));
            c.check("C07.u.between", matches!(u, Some(u) if (u as f64) >= lo - 0.0051 && (u as f64) <= hi + 0.0051), || format!("U = {:?} outside [{}, {}]", u, lo, hi));
            let g = wc.g_glwi(&db);
            c.check("C07.g.wi", matches!(g, Some(g) if (g as f64 - 0.9 * ggl as f64).abs() <= 0.0051), || format!("g_gl;wi = {:?} want {}", g, 0.9 * ggl));
            let gs = wc.g_glshwi(&db);
            match user {
                Some(v) => c.check("C07.g.shwi.user", matches!(gs, Some(x) if (x - v).abs() <= 0.0051), || format!("g_gl;sh;wi = {:?} want user value {}", gs, v)),
                None => c.check("C07.g.shwi.fallback", gs == g, || format!("g_gl;sh;wi = {:?} want g_gl;wi = {:?}", gs, g)),
            }
            c.nontrivial(format!("{} {} {} {} {} {:?}", ug, uf, ff, du, ggl, user));
            c.sample(|| format!("Ug {} Uf {} Ff {} dU {} -> U {:?} g {:?} gsh {:?}", ug, uf, ff, du, u, g, gs));
        });
    }

    #[test]
    fn n_c07_defaults() {
        drive("C07.defaults", "EnergyProps::from + KData + QSolJulData: window construction with glazing {ok, nil, dangling} x frame {ok, dangling} x user shading factor {none, 0.12}; window with / without construction; a second, complete construction listed before / after it / absent: defaults 0.77 / g_gl;wi fallback / 5.7 W/m2K", |c| {
            let gl = c.pick(3);
            let fr = c.pick(2);
            let user = c.of(&[None, Some(0.12f32)]);
            let has_cons = c.flag();
            let mut m = empty_model();
            m.spaces.push(space(0xA0, true, SpaceType::CONDITIONED, 1.0, 3.0));
            m.cons.materials = vec![material(0xE0, 0.5)];
            m.cons.wallcons = vec![wallcons(0xC0, &[(0xE0, 0.25)])];
            m.cons.glasses = vec![glass(0xF0)];
            m.cons.frames = vec![frame(0xF1)];
            let mut wc = wincons(0xD0, [uid(0xF0), Uuid::nil(), uid(0xFE)][gl], [uid(0xF1), uid(0xFD)][fr]);
            wc.g_glshwi = user;
            m.cons.wincons = vec![wc];
            // another, complete construction with a different glazing listed before / after it: every construction gets
            // its own values, whatever the list holds around it
            let neighbour = c.pick(3);
            if neighbour > 0 {
                let mut g2 = glass(0xF2);
                g2.g_gln = 0.3;
                m.cons.glasses.push(g2);
                let n = wincons(0xD5, uid(0xF2), uid(0xF1));
                if neighbour == 1 {
                    m.cons.wincons.insert(0, n);
                } else {
                    m.cons.wincons.push(n);
                }
            }
            m.walls.push(wall(1, BoundaryType::EXTERIOR, uid(0xA0), None, uid(0xC0), 180.0, 0.0, rect(4.0, 5.0), None));
            m.walls.push(wall(2, BoundaryType::EXTERIOR, uid(0xA0), None, uid(0xC0), 90.0, 0.0, rect(4.0, 3.0), None));
            m.windows.push(window(0x11, uid(2), if has_cons { uid(0xD0) } else { uid(0xDE) }, 2.0, 1.5, None, 0.0));
            c.note(format!("glass#{} frame#{} user {:?} has_cons {} neighbour {}", gl, fr, user, has_cons, ["none", "listed before", "listed after"][neighbour]));
            let ind = m.energy_indicators();
            let p = &ind.props;
            let wcp = &p.wincons[&uid(0xD0)];
            let resolves = gl == 0 && fr == 0;
            c.check("C07.u.none", wcp.u_value.is_some() == resolves, || format!("construction U {:?}, glazing/frame resolve: {}", wcp.u_value, resolves));
            let g_wi = if gl == 0 { 0.54 } else { 0.77 };
            c.check("C07.defaults.g_glwi", (wcp.g_glwi - g_wi).abs() < 1e-6, || format!("g_gl;wi {} want {}", wcp.g_glwi, g_wi));
            let g_sh = user.unwrap_or(g_wi);
            c.check("C07.defaults.g_glshwi", (wcp.g_glshwi - g_sh).abs() < 1e-6, || format!("g_gl;sh;wi {} want {}", wcp.g_glshwi, g_sh));
            if neighbour > 0 {
                let np = &p.wincons[&uid(0xD5)];
                c.check("C07.defaults.neighbour", (np.g_glwi - 0.27).abs() < 1e-6 && (np.g_glshwi - 0.27).abs() < 1e-6 && np.u_value.is_some(), || format!("the complete construction next to it: g {} / {} U {:?}, want 0.27 / 0.27 / a value", np.g_glwi, np.g_glshwi, np.u_value));
            }
            // downstream: K uses 5.7 W/m2K when the window has no U; q_sol;jul uses 0.77 / 0.20 without construction
            let win_u = if has_cons && resolves { round2(1.1 * (0.25 * 2.2 + 0.75 * 1.4)) } else { 5.7 };
            c.check("C07.defaults.k_uses_5_7", approx64(ind.K_data.windows.au, 3.0 * win_u, 1e-4, 1e-4), || format!("window A.U {} want {}", ind.K_data.windows.au, 3.0 * win_u));
            let (g_used, ff_used) = if has_cons { (g_sh as f64, 0.25) } else { (0.77, 0.20) };
            c.check("C07.defaults.qsoljul", approx64(ind.q_soljul_data.gglshwi_mean, g_used, 1e-4, 1e-5) && approx64(ind.q_soljul_data.f_f_mean, ff_used, 1e-4, 1e-5), || format!("q_sol;jul used g {} F_f {} want {} {}", ind.q_soljul_data.gglshwi_mean, ind.q_soljul_data.f_f_mean, g_used, ff_used));
            c.nontrivial(format!("{} {} {:?} {}", gl, fr, user, has_cons));
            c.sample(|| format!("glass#{} frame#{} user {:?} cons {} -> U {:?} g {} / {}", gl, fr, user, has_cons, wcp.u_value, wcp.g_glwi, wcp.g_glshwi));
        });
    }

    // ---- C06.ground: EN ISO 13370 slab-on-ground and basement-wall values ------------------------------------
    #[test]
    fn n_c06_ground() {
        drive(
            "C06.ground",
            "Wall::u_value for elements in contact with the ground: basement 8x5, height 3, floor depth z {0,1.5,3.5}; side walls all in contact with ground / two of four adiabatic (exposed perimeter halved) / all adiabatic (inner core room: finite); floor construction R {0.5, 2.5}; wall construction R {0.5, 2.5} (less / better insulated than the slab); perimeter insulation (D,Rn) {(0,0),(1,1.5)}; element = slab / long basement wall",
            |c| {
                let depth = c.of(&[0.0f32, 1.5, 3.5]);
                let exposure = c.pick(3); // 0: all four side walls in contact with ground, 1: two of four adiabatic, 2: inner core (none exposed)
                let half = exposure == 1;
                let insulated = c.flag();
                let (d_ins, rn) = c.of(&[(0.0f32, 0.0f32), (1.0, 1.5)]);
                // the basement wall less (R 0.5) or better (R 2.5) insulated than the slab: d_w on either side of d_t
                let wall_insulated = c.flag();
                c.note(format!("z {} exposure#{} insulated floor {} insulated wall {} D {} Rn {}", depth, exposure, insulated, wall_insulated, d_ins, rn));
                let mut m = empty_model();
                m.meta.d_perim_insulation = d_ins;
                m.meta.rn_perim_insulation = rn;
                let mut sp = space(0xA0, true, SpaceType::CONDITIONED, 1.0, 3.0);
                sp.z = -depth;
                m.spaces.push(sp);
                m.cons.materials = vec![material(0xE0, 0.5), material_r(0xE2, 2.0)];
                m.cons.wallcons = vec![wallcons(0xC0, &[(0xE0, 0.25)]), wallcons(0xC1, &[(0xE0, 0.25), (0xE2, 0.05)])];
                let floor_cons = if insulated { 0xC1 } else { 0xC0 };
                let r_floor = if insulated { 2.5f64 } else { 0.5 };
                let r_wall = if wall_insulated { 2.5f64 } else { 0.5 };
                let wall_cons = if wall_insulated { 0xC1 } else { 0xC0 };
                m.walls.push(wall(1, BoundaryType::GROUND, uid(0xA0), None, uid(floor_cons), 180.0, 0.0, rect(8.0, 5.0), None));
                let side = |b: bool| if b || exposure == 2 { BoundaryType::ADIABATIC } else { BoundaryType::GROUND };
                let front = if exposure == 2 { BoundaryType::ADIABATIC } else { BoundaryType::GROUND };
                m.walls.push(wall(2, front, uid(0xA0), None, uid(wall_cons), 90.0, 0.0, rect(8.0, 3.0), None));
                m.walls.push(wall(3, front, uid(0xA0), None, uid(wall_cons), 90.0, 90.0, rect(5.0, 3.0), None));
                m.walls.push(wall(4, side(half), uid(0xA0), None, uid(wall_cons), 90.0, 180.0, rect(8.0, 3.0), None));
                m.walls.push(wall(5, side(half), uid(0xA0), None, uid(wall_cons), 90.0, -90.0, rect(5.0, 3.0), None));
                if exposure == 2 {
                    // a room whose slab has no exposed perimeter at all: the slab still has a finite, small, non-negative U
                    // and every figure of the model is finite (C14: sane closed models give finite numbers)
                    let got = m.walls[0].u_value(&m);
                    c.check("C06.ground.core_room.finite", matches!(got, Some(u) if u.is_finite() && u >= 0.0 && u <= 1.0), || format!("slab of an inner core room: U = {:?}", got));
                    let ind = m.energy_indicators();
                    c.check("C14.closed.finite", ind.K_data.K.is_finite() && ind.K_data.ground.au.is_finite(), || format!("K = {} ground A.U = {}", ind.K_data.K, ind.K_data.ground.au));
                    return;
                }
                let (lam, lam_ins, pi) = (2.0f64, 0.035f64, std::f64::consts::PI);
                let z = depth as f64;
                let d_t = 0.3 + lam * (0.17 + r_floor + 0.04);
                let p_exposed = round2(26.0 * if half { 0.5 } else { 1.0 });
                let b1 = round2(40.0 / (0.5 * p_exposed));
                // slab (9.3.2) + edge insulation (B.4)
                let bl = d_t + 0.5 * z;
                let u_bf = if bl < b1 { 2.0 * lam / (pi * b1 + bl) * (pi * b1 / bl + 1.0).ln() } else { lam / (0.457 * b1 + bl) };
                let d1 = rn as f64 * (lam - lam_ins);
                let psi = ((-lam / pi * ((d_ins as f64 / d_t + 1.0).ln() - (d_ins as f64 / (d_t + d1) + 1.0).ln())) * 1000.0).round() / 1000.0;
                let u_slab = u_bf + 2.0 * psi / b1;
                let got_slab = m.walls[0].u_value(&m);
                c.check("C06.ground.slab", matches!(got_slab, Some(u) if (u as f64 - u_slab).abs() <= 0.0101), || format!("slab U = {:?} want {} (B' {} d_t {} z {} psi {})", got_slab, u_slab, b1, d_t, z, psi));
                // basement wall (9.3.3), height-weighted with the part above ground
                let u_w = round2(1.0 / (r_wall + 0.13 + 0.04));
                let u_wall = if z < 0.01 {
                    u_w
                } else {
                    let d_w = lam / u_w;
                    let dt = d_w.min(d_t);
                    let u_bw = round2(2.0 * lam / (pi * z) * (1.0 + 0.5 * dt / (dt + z)) * (z / d_w + 1.0).ln());
                    let h = (3.0 - z).max(0.0);
                    if h == 0.0 { u_bw } else { (z * u_bw + h * u_w) / 3.0 }
                };
                let got_wall = m.walls[1].u_value(&m);
                c.check("C06.ground.wall", matches!(got_wall, Some(u) if (u as f64 - u_wall).abs() <= 0.0101), || format!("basement wall U = {:?} want {} (z {} U_w {} d_t {})", got_wall, u_wall, z, u_w, d_t));
                // deeper / better insulated never loses more
                c.check("C06.ground.below_air_value", matches!(got_wall, Some(u) if (u as f64) <= u_w + 0.0051), || format!("buried wall U {:?} above the same wall in air {}", got_wall, u_w));
                c.nontrivial(format!("{} {} {} {} {} {}", depth, half, insulated, wall_insulated, d_ins, rn));
                c.sample(|| format!("z {} half {} Rf {} D {} Rn {} -> slab {:?} wall {:?}", depth, half, r_floor, d_ins, rn, got_slab, got_wall));
            },
        );
    }
}
