// Contracts for bemodel/src/energy/transmittance.rs (U-values of opaque elements and windows) and the
// solar-factor helpers of radiation.rs. Child module of `energy::transmittance`, so private methods are in reach.
#![allow(dead_code, unused_imports, non_snake_case, clippy::all)]

use crate::{
    BoundaryType, ConsDb, Frame, Glass, Layer, MatProps, Material, Model, Space, SpaceType, Tilt, Uuid, Wall,
    WallCons, WallGeom, WinCons,
};

pub(crate) fn mk_wall(tilt: f32, bounds: BoundaryType) -> Wall {
    Wall {
        id: Uuid::nil(),
        name: String::new(),
        bounds,
        cons: Uuid::nil(),
        space: Uuid::nil(),
        next_to: None,
        geometry: WallGeom { tilt, azimuth: 0.0, position: None, polygon: vec![] },
    }
}

/// Rsi of EN ISO 6946 by heat-flow direction, from the tilt class of the element
/// (upwards 0.10 through roofs, horizontal 0.13 through walls, downwards 0.17 through floors)
pub(crate) fn rsi_6946(tilt: f32) -> f64 {
    let t = tilt;
    if t <= 60.0 || t >= 300.0 {
        0.10
    } else if t < 120.0 || t >= 240.0 {
        0.13
    } else {
        0.17
    }
}

#[cfg(kani)]
mod k {
    use super::*;

    fn any_f32_in(lo: f32, hi: f32) -> f32 {
        let v: f32 = kani::any();
        kani::assume(v >= lo && v <= hi);
        v
    }

    // C06.uext.value: U = 1/(Rsi + R + Rse) to two decimals, Rsi by heat-flow direction, Rse = 0.04.
    // Cross-multiplied so the oracle needs no division: |U*D - 1| <= 0.0051*D + 1e-4  with D = R + Rsi + Rse.
    // The domain R in [0,100] is split by binade (fixed exponent => the division circuit is much cheaper to
    // decide); the union of the pieces is the whole interval, so together they are a complete proof.
    fn uext_value_on(lo: f32, hi: f32) {
        let r = any_f32_in(lo, hi);
        let tilt = any_f32_in(0.0, 360.0);
        let w = mk_wall(tilt, BoundaryType::EXTERIOR);
        kani::cover!(true, "precondition satisfiable");
        let u = w.u_value_exterior(Some(r));
        assert!(u.is_some(), "C06.uext.some");
        let u = u.unwrap();
        let d = r as f64 + rsi_6946(tilt) + 0.04;
        let lhs = (u as f64) * d - 1.0;
        assert!(lhs.abs() <= 0.0051 * d + 1.0e-4, "C06.uext.value");
    }

    macro_rules! uext_piece {
        ($name:ident, $lo:expr, $hi:expr) => {
            #[kani::proof]
            #[kani::stub_verified(crate::utils::fround2)]
            fn $name() {
                uext_value_on($lo, $hi);
            }
        };
    }
    uext_piece!(c06_uext_value_p0, 0.0, 0.0625);
    uext_piece!(c06_uext_value_p1, 0.0625, 0.25);
    uext_piece!(c06_uext_value_p2, 0.25, 0.5);
    uext_piece!(c06_uext_value_p3, 0.5, 1.0);
    uext_piece!(c06_uext_value_p4, 1.0, 2.0);
    uext_piece!(c06_uext_value_p5, 2.0, 4.0);
    uext_piece!(c06_uext_value_p6, 4.0, 8.0);
    uext_piece!(c06_uext_value_p7, 8.0, 16.0);
    uext_piece!(c06_uext_value_p8, 16.0, 32.0);
    uext_piece!(c06_uext_value_p9, 32.0, 64.0);
    uext_piece!(c06_uext_value_p10, 64.0, 100.0);

    #[kani::proof]
    fn c06_uext_none() {
        let tilt: f32 = kani::any();
        kani::assume(tilt.is_finite());
        let w = mk_wall(tilt, BoundaryType::EXTERIOR);
        assert!(w.u_value_exterior(None).is_none(), "C06.uext.none");
    }

    // C06.uint.value: U = 1/(R_f + A_i/(UA + 0.33 q)); with H = UA + 0.33 q: U*(R_f*H + A_i) = H
    #[kani::proof]
    #[kani::stub_verified(crate::utils::fround2)]
    fn c06_uint_value() {
        let a_i = any_f32_in(0.01, 1.0e4);
        let r_f = any_f32_in(0.1, 100.0);
        let ua = any_f32_in(0.0, 1.0e5);
        let q = any_f32_in(0.0, 1.0e5);
        kani::assume(ua + 0.33 * q >= 1.0e-3);
        let w = mk_wall(90.0, BoundaryType::INTERIOR);
        kani::cover!(true, "precondition satisfiable");
        let u = w.u_value_interior_cond_uncond(a_i, r_f, ua, q);
        assert!(u.is_some(), "C06.uint.some");
        let u = u.unwrap() as f64;
        let h = ua as f64 + 0.33 * (q as f64);
        let den = r_f as f64 * h + a_i as f64;
        // |u - h/den| <= 0.0051 + 1e-4 * h/den
        assert!((u * den - h).abs() <= 0.0051 * den + 1.0e-4 * h, "C06.uint.value");
    }

    // C06.gnd: a basement wall that is not buried (|z| < 1 cm) has the U of the same wall in outside air;
    // a buried roof keeps it as well.
    #[kani::proof]
    fn c06_gnd_notburied() {
        let z = any_f32_in(-0.0099, 0.0099);
        let u_w: f32 = kani::any();
        let d_t: f32 = kani::any();
        let h: f32 = kani::any();
        kani::assume(u_w.is_finite() && d_t.is_finite() && h.is_finite());
        let w = mk_wall(90.0, BoundaryType::GROUND);
        kani::cover!(true, "precondition satisfiable");
        assert!(w.u_value_gnd_wall(z, u_w, d_t, h) == u_w, "C06.gnd.wall.notburied");
        assert!(w.u_value_gnd_top(u_w) == u_w, "C06.gnd.top.identity");
    }

    // C06/C14: the ground formulas never panic for finite inputs (sound with over-approximated ln)
    #[kani::proof]
    fn c06_gnd_panicfree() {
        let z: f32 = kani::any();
        let u_w: f32 = kani::any();
        let d_t: f32 = kani::any();
        let h: f32 = kani::any();
        let cd: f32 = kani::any();
        let psi: f32 = kani::any();
        kani::assume(z.is_finite() && u_w.is_finite() && d_t.is_finite() && h.is_finite() && cd.is_finite() && psi.is_finite());
        let w = mk_wall(90.0, BoundaryType::GROUND);
        let _ = w.u_value_gnd_wall(z, u_w, d_t, h);
        let _ = w.u_value_gnd_slab(z, d_t, cd, psi);
    }

    // ---- C07: window constructions ------------------------------------------------------------
    #[derive(Clone, Copy, PartialEq)]
    enum Link {
        Present,
        Nil,
        Dangling,
    }

    fn any_link() -> Link {
        let k: u8 = kani::any();
        kani::assume(k < 3);
        match k {
            0 => Link::Present,
            1 => Link::Nil,
            _ => Link::Dangling,
        }
    }

    fn id(n: u128) -> Uuid {
        Uuid::from_u128(n)
    }

    fn mk_db(ug: f32, ggl: f32, uf: f32) -> ConsDb {
        ConsDb {
            wallcons: vec![],
            wincons: vec![],
            materials: vec![],
            glasses: vec![Glass { id: id(0x11), name: String::new(), u_value: ug, g_gln: ggl }],
            frames: vec![Frame { id: id(0x22), name: String::new(), u_value: uf, absorptivity: 0.6 }],
        }
    }

    fn link_id(l: Link, present: u128) -> Uuid {
        match l {
            Link::Present => id(present),
            Link::Nil => Uuid::nil(),
            Link::Dangling => id(0x99),
        }
    }

    // C07.u.none: a construction has a U-value exactly when both its glazing and its frame resolve
    // (the numeric formula is checked by the bounded obligation C07.u.value: 4 multiplications + division are
    // beyond CBMC in the full float domain, see DESIGN.md)
    #[kani::proof]
    #[kani::unwind(18)]
    #[kani::stub_verified(crate::utils::fround2)]
    fn c07_wincons_u() {
        let ug = any_f32_in(0.1, 10.0);
        let uf = any_f32_in(0.1, 10.0);
        let ff = any_f32_in(0.0, 1.0);
        let du = any_f32_in(0.0, 50.0);
        let (lg, lf) = (any_link(), any_link());
        let db = mk_db(ug, 0.7, uf);
        let wc = WinCons {
            id: id(0x33),
            name: String::new(),
            glass: link_id(lg, 0x11),
            frame: link_id(lf, 0x22),
            f_f: ff,
            delta_u: du,
            g_glshwi: None,
            c_100: 27.0,
        };
        kani::cover!(lg == Link::Present && lf == Link::Present, "resolving case reachable");
        let u = wc.u_value(&db);
        assert!(u.is_some() == (lg == Link::Present && lf == Link::Present), "C07.u.none");
    }

    #[kani::proof]
    #[kani::unwind(18)]
    fn c07_wincons_g() {
        let ggl = any_f32_in(0.0, 1.0);
        let lg = any_link();
        let user: Option<f32> = if kani::any() { Some(any_f32_in(0.0, 1.0)) } else { None };
        let db = mk_db(2.0, ggl, 2.0);
        let wc = WinCons {
            id: id(0x33),
            name: String::new(),
            glass: link_id(lg, 0x11),
            frame: id(0x22),
            f_f: 0.2,
            delta_u: 0.0,
            g_glshwi: user,
            c_100: 27.0,
        };
        kani::cover!(lg == Link::Present && user.is_none(), "fallback case reachable");
        let g = wc.g_glwi(&db);
        assert!(g.is_some() == (lg == Link::Present), "C07.g.wi.none");
        if let Some(g) = g {
            assert!((g as f64 - 0.90 * ggl as f64).abs() <= 0.0051 + 1.0e-4, "C07.g.wi.value");
        }
        let gs = wc.g_glshwi(&db);
        match user {
            Some(v) => {
                assert!(gs.is_some(), "C07.g.shwi.user");
                assert!((gs.unwrap() as f64 - v as f64).abs() <= 0.0051 + 1.0e-4, "C07.g.shwi.user");
            }
            None => assert!(gs == g, "C07.g.shwi.fallback"),
        }
    }
}
