// Native bounded back end: stateless exhaustive enumeration by choice vector ("odometer").
// A contract obligation is a closure over `Ctx`; every call to `pick/of/flag` is one digit of the odometer,
// `drive` runs the closure for EVERY combination (or for the one given in VERIF_REPLAY) against the natively
// compiled real code. Nothing here is random. This back end is a *bounded stand-in*, never counted as proof.
#![allow(dead_code)]

use std::collections::BTreeSet;
use std::fmt::Write as _;
use std::panic::{catch_unwind, AssertUnwindSafe};

thread_local! {
    static LAST_PANIC: std::cell::RefCell<String> = std::cell::RefCell::new(String::new());
}

/// `file:line` of the last panic raised on the calling thread (empty if none)
pub fn last_panic_location() -> String {
    LAST_PANIC.with(|c| c.borrow().clone())
}

/// One-line text of a panic payload
pub fn panic_text(e: &(dyn std::any::Any + Send)) -> String {
    if let Some(s) = e.downcast_ref::<&str>() {
        s.to_string()
    } else if let Some(s) = e.downcast_ref::<String>() {
        s.clone()
    } else {
        "panic".to_string()
    }
}

/// Single-edit damage of a text file (C19). `kind`: 0 line deleted, 1 line duplicated, 2 file truncated before the
/// line, 3 first number of the line replaced by text, 4 by a value no f32 / no index can hold, 5 by a negative
/// integer, 6 the block that starts on the line removed (up to the line closing it with `..`), 7 the first quoted
/// name on the right-hand side renamed, 8 / 9 / 10 the first number replaced by 0 / 100 / 1 (values that are in range
/// for some attributes and degenerate for others). None when the edit does not apply to the line.
pub const DAMAGE_KINDS: [&str; 11] = ["line deleted", "line duplicated", "truncated before line", "number -> text", "number -> 1e39", "number -> -7", "block removed", "reference renamed", "number -> 0", "number -> 100", "number -> 1"];

pub fn damage(text: &str, line: usize, kind: usize) -> Option<String> {
    let lines: Vec<&str> = text.split_inclusive('\n').collect();
    if line >= lines.len() {
        return None;
    }
    let l = lines[line];
    let join = |v: Vec<&str>| v.concat();
    let number_span = |l: &str| -> Option<(usize, usize)> {
        // first numeric token that is not part of a name: preceded by start / blank / '=' / '(' / ',' / ';' / '>' / tab
        let b = l.as_bytes();
        let mut i = 0;
        while i < b.len() {
            let startable = i == 0 || matches!(b[i - 1], b' ' | b'=' | b'(' | b',' | b';' | b'>' | b'\t');
            if startable && (b[i].is_ascii_digit() || ((b[i] == b'-' || b[i] == b'.') && i + 1 < b.len() && b[i + 1].is_ascii_digit())) {
                let mut j = i + 1;
                while j < b.len() && (b[j].is_ascii_digit() || matches!(b[j], b'.' | b'e' | b'E' | b'-' | b'+')) {
                    j += 1;
                }
                // not a prefix of an identifier such as 3D or 12_name
                if j >= b.len() || !(b[j].is_ascii_alphabetic() || b[j] == b'_') {
                    return Some((i, j));
                }
                i = j;
            }
            i += 1;
        }
        None
    };
    match kind {
        0 => {
            let mut v = lines.clone();
            v.remove(line);
            Some(join(v))
        }
        1 => {
            let mut v = lines.clone();
            v.insert(line, l);
            Some(join(v))
        }
        2 => Some(join(lines[..line].to_vec())),
        3 | 4 | 5 | 8 | 9 | 10 => {
            // inside a quoted string a number is part of a name, not a number
            if l.contains('"') && l.find('"') < number_span(l).map(|s| s.0) {
                return None;
            }
            let (a, b) = number_span(l)?;
            let new = match kind {
                3 => "abc",
                4 => "1e39",
                5 => "-7",
                8 => "0",
                9 => "100",
                _ => "1",
            };
            if l[a..b].trim() == new {
                return None;
            }
            let nl = format!("{}{}{}", &l[..a], new, &l[b..]);
            let mut v = lines.clone();
            v[line] = &nl;
            Some(v.concat())
        }
        6 => {
            let t = l.trim_start();
            if !(t.starts_with('"') && t.contains("\" =")) {
                return None;
            }
            let mut end = line;
            while end < lines.len() && !lines[end].trim_end().ends_with("..") {
                end += 1;
            }
            if end >= lines.len() {
                return None;
            }
            let mut v = lines[..line].to_vec();
            v.extend_from_slice(&lines[end + 1..]);
            Some(join(v))
        }
        7 => {
            let eq = l.find('=')?;
            let q1 = eq + l[eq..].find('"')?;
            let q2 = q1 + 1 + l[q1 + 1..].find('"')?;
            if q2 == q1 + 1 {
                return None;
            }
            let nl = format!("{}_x{}", &l[..q2], &l[q2..]);
            let mut v = lines.clone();
            v[line] = &nl;
            Some(v.concat())
        }
        _ => None,
    }
}

/// stable identity of a crash site: source file of the panic and its message with names / numbers blanked
pub fn crash_site(msg: &str, loc: &str) -> String {
    let file = loc.rsplit_once(':').map(|x| x.0).unwrap_or(loc);
    let file = file.rsplit_once("/repo/").map(|x| x.1).unwrap_or(file);
    // the generic part of the message (up to the first colon: no payload), names and numbers blanked
    let head = msg.split(": ").next().unwrap_or(msg);
    let mut m = String::new();
    let mut in_q = false;
    for ch in head.chars().take(80) {
        if ch == '`' {
        } else if ch == '"' || ch == '\'' {
            in_q = !in_q;
            m.push('"');
        } else if in_q {
        } else if ch.is_ascii_digit() {
            if !m.ends_with('#') {
                m.push('#');
            }
        } else if ch == '\n' {
            m.push(' ');
        } else {
            m.push(ch);
        }
    }
    format!("{}:{}", file, m.trim().replace(' ', "_"))
}


/// payload of the unwinding that ends a discarded enumerator run (see `Ctx::pick`)
pub struct DiscardedRun;

pub struct Failure {
    pub clause: String,
    pub case: Vec<usize>,
    pub detail: String,
}

pub struct Ctx {
    /// (chosen, arity) per digit of the current case
    digits: Vec<(usize, usize)>,
    pos: usize,
    /// prefix to follow (replay or odometer state)
    prefix: Vec<usize>,
    pub failures: Vec<Failure>,
    pub n_failures: usize,
    clause_counts: Vec<(String, usize)>,
    nontrivial: BTreeSet<String>,
    samples: Vec<String>,
    pub tier_thorough: bool,
    case_note: String,
    /// work is split over worker threads on the first one or two digits: (worker index, workers)
    stride: (usize, usize),
    /// (start, step) of digit 0 and digit 1 for this worker, fixed when the arity of digit 0 is first seen
    split: Option<((usize, usize), (usize, usize))>,
    abort: bool,
}

impl Ctx {
    fn new(thorough: bool) -> Self {
        Ctx {
            digits: vec![],
            pos: 0,
            prefix: vec![],
            failures: vec![],
            n_failures: 0,
            clause_counts: vec![],
            nontrivial: BTreeSet::new(),
            samples: vec![],
            tier_thorough: thorough,
            case_note: String::new(),
            stride: (0, 1),
            split: None,
            abort: false,
        }
    }

    /// One odometer digit with `n` alternatives (n >= 1)
    pub fn pick(&mut self, n: usize) -> usize {
        assert!(n >= 1);
        if self.pos == 0 && self.split.is_none() {
            let (w, jobs) = self.stride;
            self.split = Some(if jobs <= n {
                ((w, jobs), (0, 1))
            } else {
                // more workers than alternatives of the first digit: groups of workers share one value of digit 0
                // and split digit 1 among themselves
                let g = jobs / n;
                if w >= g * n {
                    ((n, n), (0, 1)) // idle worker
                } else {
                    ((w % n, n), (w / n, g))
                }
            });
        }
        let split = self.split.unwrap_or(((0, 1), (0, 1)));
        let mut c = if self.pos < self.prefix.len() {
            self.prefix[self.pos]
        } else if self.pos == 0 {
            (split.0).0
        } else if self.pos == 1 {
            (split.1).0
        } else {
            0
        };
        if c >= n {
            // replayed digit out of range (code changed shape) or worker without work: discard this run - and leave the
            // obligation's closure at once (unwinding to `drive`), so that a discarded run has no side effects such as
            // scratch files shared with the worker that really owns the clamped case
            self.abort = true;
            std::panic::panic_any(DiscardedRun);
        }
        if self.pos < self.digits.len() {
            self.digits[self.pos] = (c, n);
        } else {
            self.digits.push((c, n));
        }
        self.pos += 1;
        c
    }

    pub fn of<T: Clone>(&mut self, xs: &[T]) -> T {
        let i = self.pick(xs.len());
        xs[i].clone()
    }

    pub fn flag(&mut self) -> bool {
        self.pick(2) == 1
    }

    /// Either the quick or the thorough candidate list
    pub fn of_tier<T: Clone>(&mut self, quick: &[T], thorough: &[T]) -> T {
        if self.tier_thorough {
            self.of(thorough)
        } else {
            self.of(quick)
        }
    }

    pub fn case(&self) -> Vec<usize> {
        self.digits[..self.pos].iter().map(|d| d.0).collect()
    }

    /// Free text describing the current case (goes into failure details and samples)
    pub fn note(&mut self, s: String) {
        self.case_note = s;
    }

    pub fn check(&mut self, clause: &str, ok: bool, detail: impl FnOnce() -> String) {
        if self.abort {
            return;
        }
        match self.clause_counts.iter_mut().find(|(c, _)| c == clause) {
            Some((_, n)) => *n += 1,
            None => self.clause_counts.push((clause.to_string(), 1)),
        }
        if !ok {
            self.n_failures += 1;
            // keep a few failures of every clause (a frequent failure must not hide a different one)
            if self.failures.len() < 40 && self.failures.iter().filter(|f| f.clause == clause).count() < 6 {
                let d = format!("{} | case: {}", detail(), self.case_note);
                self.failures.push(Failure { clause: clause.to_string(), case: self.case(), detail: d });
            }
        }
    }

    /// Mark the current case as non-trivial under `key` (distinct keys are counted)
    pub fn nontrivial(&mut self, key: String) {
        if !self.abort && self.nontrivial.len() < 200_000 {
            self.nontrivial.insert(key);
        }
    }

    pub fn sample(&mut self, s: impl FnOnce() -> String) {
        if !self.abort && self.samples.len() < 6 {
            let t = s();
            self.samples.push(t);
        }
    }
}

pub fn approx(a: f32, b: f32, rel: f32, abs: f32) -> bool {
    if a.is_nan() || b.is_nan() {
        return a.is_nan() && b.is_nan();
    }
    if a == b {
        return true;
    }
    (a - b).abs() <= abs + rel * a.abs().max(b.abs())
}

pub fn approx64(a: f32, b: f64, rel: f64, abs: f64) -> bool {
    let a = a as f64;
    if a.is_nan() || b.is_nan() {
        return false;
    }
    if a == b {
        return true;
    }
    (a - b).abs() <= abs + rel * a.abs().max(b.abs())
}

fn esc(s: &str) -> String {
    let mut o = String::new();
    for c in s.chars() {
        match c {
            '"' => o.push_str("\\\""),
            '\\' => o.push_str("\\\\"),
            '\n' => o.push_str("\\n"),
            '\t' => o.push_str("\\t"),
            c if (c as u32) < 0x20 => {
                let _ = write!(o, "\\u{:04x}", c as u32);
            }
            c => o.push(c),
        }
    }
    o
}

fn vec_json(v: &[usize]) -> String {
    let s: Vec<String> = v.iter().map(|x| x.to_string()).collect();
    format!("[{}]", s.join(","))
}

/// Run `f` for every combination of its choices (the first digit is strided over worker threads). Env:
///  VERIF_OUT     file to write the JSON summary to (required)
///  VERIF_TIER    quick|thorough
///  VERIF_REPLAY  "3,0,1,.." run exactly this case
///  VERIF_JOBS    worker threads (default 8)
///  VERIF_MAX     stop each worker after this many cases (reported as truncated)
pub fn drive(ob: &str, scope: &str, f: impl Fn(&mut Ctx) + Sync) {
    let out = std::env::var("VERIF_OUT").unwrap_or_else(|_| "/dev/stdout".to_string());
    let thorough = std::env::var("VERIF_TIER").map(|t| t == "thorough").unwrap_or(false);
    let replay: Option<Vec<usize>> = std::env::var("VERIF_REPLAY").ok().filter(|s| !s.is_empty()).map(|s| {
        s.split(',').filter(|x| !x.trim().is_empty()).map(|x| x.trim().parse().unwrap()).collect()
    });
    let jobs: usize = if replay.is_some() {
        1
    } else {
        std::env::var("VERIF_JOBS").ok().and_then(|s| s.parse().ok()).unwrap_or(8).max(1)
    };
    let max: usize = std::env::var("VERIF_MAX").ok().and_then(|s| s.parse().ok()).unwrap_or(usize::MAX);
    let progress = std::env::var("VERIF_PROGRESS").ok();

    // silence the default panic printer: panics of the code under contract are recorded as failures
    // ... and remember where the last panic of each thread happened (source file only: line numbers move)
    std::panic::set_hook(Box::new(|info| {
        let loc = info.location().map(|l| format!("{}:{}", l.file(), l.line())).unwrap_or_default();
        LAST_PANIC.with(|c| *c.borrow_mut() = loc);
    }));

    let worker = |w: usize| -> (Ctx, usize, bool) {
        let mut ctx = Ctx::new(thorough);
        ctx.stride = (w, jobs);
        let mut evaluations: usize = 0;
        let mut truncated = false;
        let mut prefix: Vec<usize> = replay.clone().unwrap_or_default();
        loop {
            ctx.prefix = prefix.clone();
            ctx.pos = 0;
            ctx.digits.clear();
            ctx.case_note.clear();
            ctx.abort = false;
            if let Some(p) = &progress {
                let _ = std::fs::write(format!("{}.{}", p, w), vec_json(&prefix));
            }
            let r = catch_unwind(AssertUnwindSafe(|| f(&mut ctx)));
            if !ctx.abort {
                evaluations += 1;
                if let Err(e) = r {
                    let msg = if let Some(s) = e.downcast_ref::<&str>() {
                        s.to_string()
                    } else if let Some(s) = e.downcast_ref::<String>() {
                        s.clone()
                    } else {
                        "panic".to_string()
                    };
                    ctx.check("panic-free", false, || format!("panicked: {}", msg));
                }
            } else if replay.is_none() {
                // worker index beyond the arity of the first digit: nothing to do for this worker
                break;
            }
            if replay.is_some() {
                break;
            }
            if evaluations >= max {
                truncated = true;
                break;
            }
            if STOP.load(std::sync::atomic::Ordering::SeqCst) {
                break;
            }
            // advance the odometer over the digits consumed by this run (digit 0 advances by `jobs`)
            let mut d: Vec<(usize, usize)> = ctx.digits[..ctx.pos].to_vec();
            let mut next: Option<Vec<usize>> = None;
            let split = ctx.split.unwrap_or(((0, 1), (0, 1)));
            while let Some((c, n)) = d.pop() {
                let step = match d.len() {
                    0 => (split.0).1,
                    1 => (split.1).1,
                    _ => 1,
                };
                if c + step < n {
                    let mut p: Vec<usize> = d.iter().map(|x| x.0).collect();
                    p.push(c + step);
                    next = Some(p);
                    break;
                }
            }
            match next {
                Some(p) => prefix = p,
                None => break,
            }
        }
        (ctx, evaluations, truncated)
    };

    let results: Vec<(Ctx, usize, bool)> = if jobs == 1 {
        vec![worker(0)]
    } else {
        std::thread::scope(|sc| {
            let hs: Vec<_> = (0..jobs).map(|w| { let wk = &worker; sc.spawn(move || wk(w)) }).collect();
            hs.into_iter().map(|h| h.join().expect("worker thread died")).collect()
        })
    };

    let mut evaluations = 0usize;
    let mut truncated = false;
    let mut n_failures = 0usize;
    let mut nontrivial: BTreeSet<String> = BTreeSet::new();
    let mut clause_counts: Vec<(String, usize)> = vec![];
    let mut failures: Vec<Failure> = vec![];
    let mut samples: Vec<String> = vec![];
    for (ctx, ev, tr) in results {
        evaluations += ev;
        truncated |= tr;
        n_failures += ctx.n_failures;
        nontrivial.extend(ctx.nontrivial);
        for (c, n) in ctx.clause_counts {
            match clause_counts.iter_mut().find(|(k, _)| *k == c) {
                Some((_, m)) => *m += n,
                None => clause_counts.push((c, n)),
            }
        }
        for fl in ctx.failures {
            if failures.len() < 40 && failures.iter().filter(|f| f.clause == fl.clause).count() < 6 {
                failures.push(fl);
            }
        }
        for sm in ctx.samples {
            if samples.len() < 6 {
                samples.push(sm);
            }
        }
    }

    let mut s = String::new();
    let _ = write!(
        s,
        "{{\"obligation\":\"{}\",\"scope\":\"{}\",\"tier\":\"{}\",\"evaluations\":{},\"distinct_nontrivial\":{},\"truncated\":{},\"n_failures\":{},",
        esc(ob),
        esc(scope),
        if thorough { "thorough" } else { "quick" },
        evaluations,
        nontrivial.len(),
        truncated,
        n_failures
    );
    s.push_str("\"clauses\":{");
    for (i, (c, n)) in clause_counts.iter().enumerate() {
        if i > 0 {
            s.push(',');
        }
        let _ = write!(s, "\"{}\":{}", esc(c), n);
    }
    s.push_str("},\"failures\":[");
    for (i, fl) in failures.iter().enumerate() {
        if i > 0 {
            s.push(',');
        }
        let _ = write!(s, "{{\"clause\":\"{}\",\"case\":{},\"detail\":\"{}\"}}", esc(&fl.clause), vec_json(&fl.case), esc(&fl.detail));
    }
    s.push_str("],\"samples\":[");
    for (i, sm) in samples.iter().enumerate() {
        if i > 0 {
            s.push(',');
        }
        let _ = write!(s, "\"{}\"", esc(sm));
    }
    s.push_str("]}\n");
    std::fs::write(&out, s).expect("cannot write VERIF_OUT");
    if STOP.load(std::sync::atomic::Ordering::SeqCst) {
        // a leaked helper thread may still be running away: leave now
        std::process::exit(0);
    }
}

/// Run `f` on a helper thread; None if it does not finish within `secs` (the thread is leaked: the caller must
/// stop enumerating and let the process exit soon, see `Ctx::stop`).
pub fn run_with_timeout<T: Send + 'static>(secs: u64, f: impl FnOnce() -> T + Send + 'static) -> Option<T> {
    let (tx, rx) = std::sync::mpsc::channel();
    std::thread::spawn(move || {
        let r = catch_unwind(AssertUnwindSafe(f));
        let _ = tx.send(r);
    });
    match rx.recv_timeout(std::time::Duration::from_secs(secs)) {
        Ok(Ok(v)) => Some(v),
        Ok(Err(e)) => std::panic::resume_unwind(e),
        Err(_) => None,
    }
}

pub static STOP: std::sync::atomic::AtomicBool = std::sync::atomic::AtomicBool::new(false);

impl Ctx {
    /// Ask every worker to stop after the current case (used after a non-termination was observed)
    pub fn stop(&mut self) {
        STOP.store(true, std::sync::atomic::Ordering::SeqCst);
    }
}

/// Directory of the crate under test inside the scratch copy. The engine passes the scratch copy's root at run time
/// (VERIF_REPO_ROOT): a test binary that cargo judged fresh although it was compiled in another - identical, since
/// removed - scratch copy must not look for the corpus where it was compiled. Falls back to the compile-time path.
pub fn crate_dir(compiled_manifest_dir: &str) -> std::path::PathBuf {
    let compiled = std::path::Path::new(compiled_manifest_dir);
    match (std::env::var("VERIF_REPO_ROOT"), compiled.file_name()) {
        (Ok(root), Some(krate)) if !root.is_empty() => std::path::Path::new(&root).join(krate),
        _ => compiled.to_path_buf(),
    }
}
