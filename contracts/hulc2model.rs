// Contracts for the `hulc2model` crate: the export tool as a process (C01) and its use of HULC's result files (C19).
// This file is NOT part of /repo: the injector appends `#[path = ...] mod verif_hulc2model;` to a scratch copy of lib.rs.
#![allow(dead_code, unused_imports, non_snake_case, clippy::all)]

/// Hash of every source file of the scratch copy (see engine/common.py): makes cargo rebuild this crate whenever any source changed.
pub const VERIF_SRC_HASH: Option<&str> = option_env!("VERIF_SRC_HASH");

#[cfg(verif_native)]
#[path = "support.rs"]
mod support;

#[cfg(verif_native)]
mod n {
    use super::support::*;
    use crate::{collect_hulc_data, fix_ecdata_from_extra};
    use bemodel::Model;
    use std::convert::TryFrom;
    use std::path::{Path, PathBuf};
    use std::process::Command;

    fn tests_root() -> PathBuf {
        crate_dir(env!("CARGO_MANIFEST_DIR")).join("../hulc_tests/tests")
    }

    fn project_dirs() -> Vec<PathBuf> {
        let mut v: Vec<PathBuf> = std::fs::read_dir(tests_root()).unwrap().filter_map(|e| e.ok().map(|e| e.path())).filter(|p| p.is_dir()).collect();
        v.sort();
        v.into_iter().filter(|d| ctehexml_of(d).is_some()).collect()
    }

    fn ctehexml_of(dir: &Path) -> Option<PathBuf> {
        let mut v: Vec<PathBuf> = std::fs::read_dir(dir).ok()?.filter_map(|e| e.ok().map(|e| e.path())).filter(|p| p.extension().map(|e| e == "ctehexml").unwrap_or(false)).collect();
        v.sort();
        v.into_iter().next()
    }

    fn tmp_dir(tag: &str) -> PathBuf {
        let base = std::env::var("VERIF_TMP").map(PathBuf::from).unwrap_or_else(|_| std::env::temp_dir());
        let d = base.join(format!("{}-{}", tag, std::process::id()));
        let _ = std::fs::create_dir_all(&d);
        d
    }

    fn bin(name: &str) -> PathBuf {
        PathBuf::from(std::env::var("VERIF_BIN_DIR").unwrap_or_default()).join(name)
    }

    /// The library conversion of a directory, panics turned into errors (the property is about directories the
    /// library can convert)
    fn library(dir: &str, extra: bool) -> Result<Model, String> {
        let d = dir.to_string();
        match std::panic::catch_unwind(move || collect_hulc_data(&d, extra, extra)) {
            Ok(Ok(m)) => Ok(m),
            Ok(Err(e)) => Err(e.to_string()),
            Err(e) => Err(format!("panic: {}", panic_text(&*e))),
        }
    }

    // ---- C01: the export tool writes exactly the model JSON to standard output ----------------------------------
    #[test]
    fn n_c01_export_tool() {
        let dirs = project_dirs();
        let empty = tmp_dir("c01-empty");
        let other = tmp_dir("c01-other");
        std::fs::write(other.join("notas.txt"), "sin proyecto\n").unwrap();
        // directories whose project the library rejects: the .ctehexml of `cubo` cut in half, and with its first wall's
        // construction renamed (a broken reference)
        let cut = tmp_dir("c01-cut");
        let broken = tmp_dir("c01-broken");
        if let Some(cubo) = dirs.iter().find(|d| d.file_name().map(|n| n == "cubo").unwrap_or(false)) {
            let text = std::fs::read_to_string(ctehexml_of(cubo).unwrap()).unwrap_or_default();
            let half = text.char_indices().nth(text.chars().count() / 2).map(|x| x.0).unwrap_or(0);
            std::fs::write(cut.join("cubo.ctehexml"), &text[..half]).unwrap();
            std::fs::write(broken.join("cubo.ctehexml"), text.replacen("CONSTRUCTION  = \"", "CONSTRUCTION  = \"no_such_", 1)).unwrap();
        }
        // a project the library converts, whose result file is damaged: fine by default, an error with --use-extra
        let kygbad = tmp_dir("c01-kygbad");
        if let Some(cubo) = dirs.iter().find(|d| d.file_name().map(|n| n == "cubo").unwrap_or(false)) {
            for e in std::fs::read_dir(cubo).unwrap().filter_map(|e| e.ok()) {
                let p = e.path();
                if p.is_file() {
                    let _ = std::fs::copy(&p, kygbad.join(p.file_name().unwrap()));
                }
            }
            let kyg = kygbad.join("KyGananciasSolares.txt");
            let bytes = std::fs::read(&kyg).unwrap_or_default();
            let text: String = bytes.iter().map(|b| *b as char).collect();
            let damaged = text.replacen("Muro;P01_E01_PE001;28.00;", "Muro;P01_E01_PE001;veintiocho;", 1);
            std::fs::write(&kyg, damaged.chars().map(|ch| ch as u32 as u8).collect::<Vec<u8>>()).unwrap();
        }
        // synthetic projects: `cubo` with a degenerate element the library still converts - a ground slab of zero area
        // (three collinear corners) listed before the real slab of its space, with and without perimeter insulation
        let sliver = tmp_dir("c01-sliver");
        let sliver_bare = tmp_dir("c01-sliver-bare");
        if let Some(cubo) = dirs.iter().find(|d| d.file_name().map(|n| n == "cubo").unwrap_or(false)) {
            let text = std::fs::read_to_string(ctehexml_of(cubo).unwrap()).unwrap_or_default();
            let polygon = "\"P01_E01_FTER000_Pol\" = POLYGON\n    V1   =( 0, 0 )\n    V2   =( 10, 0 )\n    V3   =( 5, 0 )\n    ..\n";
            let slab = "            \"P01_E01_FTER000\" = UNDERGROUND-WALL\n                  Z-GROUND      =              0\n   COMPROBAR-REQUISITOS-MINIMOS = YES\n                  CONSTRUCTION  = \"Contacto por defecto\"\n                  X             =              0\n                  Y             =              0\n                  Z             =              0\n                  AZIMUTH       =            180\n                  TILT          =            180\n                  POLYGON       = \"P01_E01_FTER000_Pol\"\n                        ..\n                  \"Contacto por defecto\" =  CONSTRUCTION\n                        TYPE   = LAYERS\n                        LAYERS = \"Contacto por defecto\"\n                        ..\n";
            let (first_polygon, real_slab) = ("\"P01_Poligono1\" = POLYGON", "            \"P01_E01_FTER001\" = UNDERGROUND-WALL");
            let with = text.replacen(first_polygon, &format!("{}{}", polygon, first_polygon), 1).replacen(real_slab, &format!("{}{}", slab, real_slab), 1);
            let bare = with.replacen("D-AISLAMIENTO-PERIMETRAL  = 1.000000", "D-AISLAMIENTO-PERIMETRAL  = 0.000000", 1).replacen("RA-AISLAMIENTO-PERIMETRAL = 1.000000", "RA-AISLAMIENTO-PERIMETRAL = 0.000000", 1);
            for (dir, t) in [(&sliver, &with), (&sliver_bare, &bare)] {
                for f in ["KyGananciasSolares.txt", "NewBDL_O.tbl"] {
                    let _ = std::fs::copy(cubo.join(f), dir.join(f));
                }
                std::fs::write(dir.join("cubo_sliver.ctehexml"), t).unwrap();
            }
        }
        // ... and `cubo` turned by 30 degrees with its space shifted, and with an overhang and two fins on every window
        // (no result files: the default and the --use-extra conversion read the project alone)
        let turned = tmp_dir("c01-turned");
        let shaded = tmp_dir("c01-shaded");
        if let Some(cubo) = dirs.iter().find(|d| d.file_name().map(|n| n == "cubo").unwrap_or(false)) {
            let text = std::fs::read_to_string(ctehexml_of(cubo).unwrap()).unwrap_or_default();
            let mut t = text.clone();
            if let Some(bp) = t.find("= BUILD-PARAMETERS") {
                if let Some(az) = t[bp..].find("AZIMUTH   = 0.000000") {
                    t.replace_range(bp + az..bp + az + "AZIMUTH   = 0.000000".len(), "AZIMUTH   = 30.000000");
                }
            }
            if let Some(sp) = t.find("\"P01_E01\" = SPACE") {
                let eol = sp + t[sp..].find('\n').unwrap_or(0);
                t.insert_str(eol + 1, "            X = 3\n            Y = 7\n            Z = 0\n");
            }
            std::fs::write(turned.join("cubo_turned.ctehexml"), &t).unwrap();
            let mut out = String::new();
            let mut in_window = false;
            for line in text.split_inclusive('\n') {
                let tr = line.trim();
                if tr.starts_with('"') && tr.ends_with("= WINDOW") {
                    in_window = true;
                } else if in_window && tr == ".." {
                    out.push_str("         OVERHANG-A = 0.3\n         OVERHANG-B = 0.2\n         OVERHANG-D = 0.6\n         OVERHANG-W = 2.4\n         LEFT-FIN-D = 0.5\n         LEFT-FIN-H = 1.1\n         RIGHT-FIN-D = 0.4\n         RIGHT-FIN-H = 1.0\n");
                    in_window = false;
                }
                out.push_str(line);
            }
            std::fs::write(shaded.join("cubo_shaded.ctehexml"), &out).unwrap();
        }
        let mut dirs = dirs;
        dirs.push(kygbad.clone());
        dirs.push(sliver.clone());
        dirs.push(sliver_bare.clone());
        dirs.push(turned.clone());
        dirs.push(shaded.clone());
        let have_bins = bin("hulc2model").exists() && bin("thor").exists();
        drive("C01.export", "the real hulc2model binary on the 12 shipped project directories x {default, --use-extra}, on an empty directory, a directory without project, a missing one and two directories whose project the library rejects (cut in half, broken reference) and a copy of `cubo` with a damaged KyGananciasSolares.txt (converts by default, fails with --use-extra), four synthetic variants of `cubo` (a zero-area ground slab with / without perimeter insulation; turned by 30 degrees with its space shifted; an overhang and two fins on every window); the same directory given with a trailing slash and as a relative path; thor -o on the project files, into a new file and over an existing longer one, alone and together with -r (either order); compared with collect_hulc_data / Model::try_from in this process", |c| {
            c.check("C01.tools_built", have_bins, || format!("hulc2model / thor not found in {:?}", std::env::var("VERIF_BIN_DIR")));
            c.check("C01.corpus", dirs.len() >= 17 && std::fs::read_to_string(turned.join("cubo_turned.ctehexml")).map(|t| t.contains("AZIMUTH   = 30.000000") && t.contains("            X = 3\n")).unwrap_or(false) && std::fs::read_to_string(shaded.join("cubo_shaded.ctehexml")).map(|t| t.contains("OVERHANG-D = 0.6")).unwrap_or(false) && std::fs::read_to_string(sliver.join("cubo_sliver.ctehexml")).map(|t| t.contains("P01_E01_FTER000_Pol") && t.matches("P01_E01_FTER000\"").count() >= 1).unwrap_or(false), || format!("{} project directories", dirs.len()));
            if !have_bins {
                return;
            }
            let k = c.pick(dirs.len() + 5);
            let mode = c.pick(3);
            if k >= dirs.len() {
                // no (convertible) project here
                let dir = [empty.clone(), other.clone(), empty.join("no-such-dir"), cut.clone(), broken.clone()][k - dirs.len()].to_string_lossy().to_string();
                if mode == 2 {
                    return;
                }
                let mut cmd = Command::new(bin("hulc2model"));
                if mode == 1 {
                    cmd.arg("--use-extra");
                }
                c.note(format!("hulc2model {}{}", if mode == 1 { "--use-extra " } else { "" }, dir));
                let out = cmd.arg(&dir).output().expect("spawn hulc2model");
                let stdout = String::from_utf8_lossy(&out.stdout).to_string();
                c.check("C01.no_project.exit_nonzero", !out.status.success(), || format!("{}: exit status {:?} for a directory without project", dir, out.status.code()));
                c.check("C01.no_project.no_json", !stdout.contains('{'), || format!("{}: standard output carries JSON-like text: {:?}", dir, stdout.chars().take(80).collect::<String>()));
                c.check("C01.no_project.library_errs", library(&dir, mode == 1).is_err(), || "the library converts a directory without project".to_string());
                c.nontrivial(format!("no project {} {}", k - dirs.len(), mode));
                c.sample(|| format!("{}: exit {:?}, {} bytes on stdout", dir, out.status.code(), stdout.len()));
                return;
            }
            let dir = dirs[k].to_string_lossy().to_string();
            let name = dirs[k].file_name().unwrap().to_string_lossy().to_string();
            if mode < 2 {
                let extra = mode == 1;
                c.note(format!("hulc2model {}{}", if extra { "--use-extra " } else { "" }, name));
                let lib = library(&dir, extra);
                let mut cmd = Command::new(bin("hulc2model"));
                if extra {
                    cmd.arg("--use-extra");
                }
                let out = cmd.arg(&dir).output().expect("spawn hulc2model");
                let stdout = String::from_utf8_lossy(&out.stdout).to_string();
                match lib {
                    Err(e) => {
                        // not convertible by the library (with these options): outside the property, but never JSON on a failure
                        // the library rejects it (with these options): the tool must fail too, and print no JSON
                        c.check("C01.failure_exit_nonzero", !out.status.success(), || format!("{} extra={}: the library fails ({}) but the tool exits {:?}", name, extra, e.chars().take(80).collect::<String>(), out.status.code()));
                        c.check("C01.failure_no_json", !stdout.contains('{'), || format!("{} extra={}: failed run left JSON-like text on stdout", name, extra));
                        c.nontrivial(format!("{} {} rejected", name, extra));
                        c.sample(|| format!("{} extra={}: library cannot convert ({}), tool exit {:?}", name, extra, e.chars().take(60).collect::<String>(), out.status.code()));
                    }
                    Ok(model) => {
                        c.check("C01.exit_zero", out.status.success(), || format!("{} extra={}: exit status {:?}; stderr ends: {:?}", name, extra, out.status.code(), String::from_utf8_lossy(&out.stderr).chars().rev().take(200).collect::<String>().chars().rev().collect::<String>()));
                        let doc: Result<serde_json::Value, _> = serde_json::from_str(&stdout);
                        c.check("C01.stdout_is_one_json_document", doc.is_ok(), || format!("{} extra={}: standard output is not exactly one JSON document ({}); it starts with {:?}", name, extra, doc.as_ref().err().map(|e| e.to_string()).unwrap_or_default(), stdout.chars().take(60).collect::<String>()));
                        // the document (or, when other text surrounds it, nothing) loads as the library's model
                        // (compared with the library's model itself, not with its own trip through JSON)
                        let loaded = Model::from_json(&stdout);
                        let want = &model;
                        c.check("C01.same_model", matches!(&loaded, Ok(m) if format!("{:?}", m) == format!("{:?}", want)), || format!("{} extra={}: standard output does not load as the model the library yields ({})", name, extra, loaded.as_ref().err().map(|e| e.to_string()).unwrap_or_else(|| "different model".to_string())));
                        // the directory written in another way names the same project: same document
                        let mut slash = Command::new(bin("hulc2model"));
                        let mut rel = Command::new(bin("hulc2model"));
                        if extra {
                            slash.arg("--use-extra");
                            rel.arg("--use-extra");
                        }
                        let out_slash = slash.arg(format!("{}/", dir)).output().expect("spawn hulc2model");
                        let out_rel = rel.current_dir(dirs[k].parent().unwrap()).arg(&name).output().expect("spawn hulc2model");
                        if extra {
                            // the option given twice is still "with the option": the last argument is the directory
                            let twice = Command::new(bin("hulc2model")).arg("--use-extra").arg("--use-extra").arg(&dir).output().expect("spawn hulc2model");
                            c.check("C01.option_repeated", twice.status.success() && twice.stdout == out.stdout, || format!("{}: `--use-extra --use-extra DIR` exits {:?} with {} bytes on stdout, `--use-extra DIR` gave {} bytes", name, twice.status.code(), twice.stdout.len(), out.stdout.len()));
                        }
                        c.check("C01.path_shapes", out_slash.status.success() && out_rel.status.success() && out_slash.stdout == out.stdout && out_rel.stdout == out.stdout, || format!("{} extra={}: `{}/` exits {:?} ({} bytes), relative `{}` exits {:?} ({} bytes), absolute path gave {} bytes", name, extra, dir, out_slash.status.code(), out_slash.stdout.len(), name, out_rel.status.code(), out_rel.stdout.len(), out.stdout.len()));
                        c.nontrivial(format!("{} {}", name, extra));
                        c.sample(|| format!("{} extra={}: exit 0, {} bytes, {} walls, {} overrides", name, extra, stdout.len(), want.walls.len(), want.overrides.walls.len() + want.overrides.windows.len()));
                    }
                }
            } else {
                let file = ctehexml_of(&dirs[k]).unwrap();
                c.note(format!("thor {} -o", name));
                let want = hulc::ctehexml::parse_with_catalog_from_path(&file).map_err(|e| e.to_string()).and_then(|d| Model::try_from(&d).map_err(|e| e.to_string())).and_then(|m| m.as_json().map_err(|e| e.to_string()));
                let want = match want {
                    Ok(j) => j,
                    Err(_) => return,
                };
                let outdir = tmp_dir(&format!("c01-thor-{}", k));
                let outfile = outdir.join("modelo.json");
                // the file named with -o may already exist (an earlier, larger export): it must end up holding exactly the model
                let prefill = c.flag();
                let _ = std::fs::remove_file(&outfile);
                if prefill {
                    std::fs::write(&outfile, "x".repeat(want.len() + 4096)).unwrap();
                }
                // thor may be asked for the indicators as well (-r FILE), before or after -o: the -o file is still the model
                let with_r = c.pick(3);
                let resfile = outdir.join("indicadores.json");
                let _ = std::fs::remove_file(&resfile);
                let mut cmd = Command::new(bin("thor"));
                cmd.arg(&file);
                if with_r == 2 {
                    cmd.arg("-r").arg(&resfile);
                }
                cmd.arg("-o").arg(&outfile);
                if with_r == 1 {
                    cmd.arg("-r").arg(&resfile);
                }
                let out = cmd.current_dir(&outdir).output().expect("spawn thor");
                let got = std::fs::read_to_string(&outfile).unwrap_or_default();
                if with_r > 0 {
                    let res = std::fs::read_to_string(&resfile).unwrap_or_default();
                    c.check("C01.thor.results_file", serde_json::from_str::<serde_json::Value>(&res).map(|v| v.get("K_data").is_some()).unwrap_or(false), || format!("thor {} -o .. -r ..: the -r file holds {} bytes that are not the indicators", name, res.len()));
                }
                c.check("C01.thor.exit_zero", out.status.success(), || format!("thor {}: exit {:?}", name, out.status.code()));
                c.check("C01.thor.same_json", got.trim_end() == want.trim_end(), || format!("thor {} -o: file ({} bytes) differs from the library's model JSON ({} bytes)", name, got.len(), want.len()));
                let _ = std::fs::remove_dir_all(&outdir);
                c.nontrivial(format!("thor {} {} {}", name, prefill, with_r));
                c.sample(|| format!("thor {} -o: {} bytes, identical to the library's JSON", name, got.len()));
            }
        });
        let _ = std::fs::remove_dir_all(&empty);
        let _ = std::fs::remove_dir_all(&other);
        let _ = std::fs::remove_dir_all(&kygbad);
        let _ = std::fs::remove_dir_all(&sliver);
        let _ = std::fs::remove_dir_all(&sliver_bare);
        let _ = std::fs::remove_dir_all(&turned);
        let _ = std::fs::remove_dir_all(&shaded);
        let _ = std::fs::remove_dir_all(&cut);
        let _ = std::fs::remove_dir_all(&broken);
    }

    // ---- C01 at the library level: what the tool prints (as_json of collect_hulc_data's model, `extra` list included)
    // loads back as that model, for every project obtained from a shipped one by rewriting one number ------------------
    #[test]
    fn n_c01_edited_projects() {
        let dirs = project_dirs();
        let projects: Vec<(String, String)> = dirs.iter().filter_map(|d| Some((d.file_name()?.to_string_lossy().to_string(), std::fs::read_to_string(ctehexml_of(d)?).ok()?))).collect();
        let thorough = std::env::var("VERIF_TIER").map(|t| t == "thorough").unwrap_or(false);
        let seed: usize = std::env::var("VERIF_SEED").ok().and_then(|s| s.parse().ok()).unwrap_or(0);
        let step = if thorough { 2 } else { 16 };
        let mut slice: Vec<(usize, usize)> = vec![];
        for (fi, (_, text)) in projects.iter().enumerate() {
            let n = text.split_inclusive('\n').count();
            let mut l = (seed + fi) % step;
            while l < n {
                slice.push((fi, l));
                l += step;
            }
        }
        const VALUE_KINDS: [usize; 4] = [8, 10, 5, 9];
        drive("C01.edited", "the 12 shipped .ctehexml projects with the first number of one line replaced by 0 / 1 / -7 / 100 (every 16th line quick, offset by VERIF_SEED; every 2nd line thorough), written to a directory of their own and converted by collect_hulc_data: whenever the library converts the project, the document the tool prints (Model::as_json) loads back as that very model", |c| {
            c.check("C01.edited.corpus", projects.len() >= 12 && slice.len() >= 1000, || format!("{} projects, {} lines", projects.len(), slice.len()));
            let k = c.pick(slice.len());
            let kind = VALUE_KINDS[c.pick(VALUE_KINDS.len())];
            let (fi, line) = slice[k];
            let (name, text) = &projects[fi];
            let edited = match damage(text, line, kind) {
                Some(t) => t,
                None => return,
            };
            c.note(format!("{} line {}: {}", name, line + 1, DAMAGE_KINDS[kind]));
            let dir = tmp_dir(&format!("c01-edited-{}-{}-{}", fi, line, kind));
            std::fs::write(dir.join("proyecto.ctehexml"), &edited).unwrap();
            let lib = library(&dir.to_string_lossy(), false);
            let _ = std::fs::remove_dir_all(&dir);
            let model = match lib {
                Ok(m) => m,
                Err(_) => return, // not a project the library converts
            };
            let json = match model.as_json() {
                Ok(j) => j,
                Err(e) => {
                    c.check("C01.edited.document_loads", false, || format!("{} with line {} {}: as_json failed: {}", name, line + 1, DAMAGE_KINDS[kind], e));
                    return;
                }
            };
            let loaded = Model::from_json(&json);
            c.check("C01.edited.document_loads", matches!(&loaded, Ok(m) if format!("{:?}", m) == format!("{:?}", model)), || {
                format!("{} with line {} {} ({:?}): the library converts it, but the exported document {}", name, line + 1, DAMAGE_KINDS[kind], text.split_inclusive('\n').nth(line).unwrap_or("").trim(), match &loaded {
                    Err(e) => format!("does not load: {}", e),
                    Ok(_) => "loads as another model".to_string(),
                })
            });
            c.nontrivial(format!("{} {}", name, DAMAGE_KINDS[kind]));
        });
    }

    // ---- C19: damaged result files (KyGananciasSolares.txt, NewBDL_O.tbl) read through collect_hulc_data -------
    fn read_latin1(p: &Path) -> String {
        std::fs::read(p).unwrap_or_default().iter().map(|b| *b as char).collect()
    }

    fn write_latin1(p: &Path, text: &str) {
        let bytes: Vec<u8> = text.chars().map(|ch| if (ch as u32) < 256 { ch as u32 as u8 } else { b'?' }).collect();
        std::fs::write(p, bytes).unwrap();
    }

    #[test]
    fn n_c19_extra_files() {
        // (project dir, result file name, its text)
        let mut corpus: Vec<(PathBuf, String, String)> = vec![];
        for d in project_dirs() {
            for f in ["KyGananciasSolares.txt", "NewBDL_O.tbl"] {
                if d.join(f).exists() {
                    corpus.push((d.clone(), f.to_string(), read_latin1(&d.join(f))));
                }
            }
        }
        let thorough = std::env::var("VERIF_TIER").map(|t| t == "thorough").unwrap_or(false);
        let seed: usize = std::env::var("VERIF_SEED").ok().and_then(|s| s.parse().ok()).unwrap_or(0);
        // quick: the two small projects, every 6th line; thorough: every project with result files, every 2nd line
        let small = ["cubo", "casoA"];
        let step = if thorough { 2 } else { 6 };
        let mut slice: Vec<(usize, usize)> = vec![];
        for (fi, (d, _, text)) in corpus.iter().enumerate() {
            let name = d.file_name().unwrap().to_string_lossy().to_string();
            if !thorough && !small.contains(&name.as_str()) {
                continue;
            }
            let n = text.split_inclusive('\n').count();
            let mut l = (seed + fi) % step;
            while l < n {
                slice.push((fi, l));
                l += step;
            }
        }
        let work = tmp_dir("c19-extra");
        drive("C19.extra_files", "collect_hulc_data(dir, use_kyg = true, use_tbl = true) on a copy of a shipped project whose KyGananciasSolares.txt or NewBDL_O.tbl has one damaged line (11 kinds; quick: cubo and casoA, every 6th line; thorough: all projects with result files, every 2nd line)", |c| {
            c.check("C19.extra.corpus", corpus.len() >= 6 && !slice.is_empty(), || format!("{} result files, {} lines in the slice", corpus.len(), slice.len()));
            let k = c.pick(slice.len());
            let kind = c.pick(DAMAGE_KINDS.len());
            let (fi, line) = slice[k];
            let (dir, fname, text) = &corpus[fi];
            let damaged = match damage(text, line, kind) {
                Some(t) => t,
                None => return,
            };
            let pname = dir.file_name().unwrap().to_string_lossy().to_string();
            c.note(format!("{}/{} line {}: {}", pname, fname, line + 1, DAMAGE_KINDS[kind]));
            // private copy of the project directory with the damaged file
            let copy = work.join(format!("{}-{}-{}", fi, line, kind));
            let _ = std::fs::create_dir_all(&copy);
            for e in std::fs::read_dir(dir).unwrap().filter_map(|e| e.ok()) {
                let p = e.path();
                if p.is_file() && p.file_name().unwrap().to_string_lossy() != *fname {
                    let _ = std::fs::copy(&p, copy.join(p.file_name().unwrap()));
                }
            }
            write_latin1(&copy.join(fname), &damaged);
            let dir_s = copy.to_string_lossy().to_string();
            let r = run_with_timeout(120, move || {
                let r = std::panic::catch_unwind(move || collect_hulc_data(&dir_s, true, true).map(|_| ()).map_err(|e| e.to_string()));
                r.map_err(|e| (panic_text(&*e), last_panic_location()))
            });
            let _ = std::fs::remove_dir_all(&copy);
            match r {
                None => {
                    c.check("C19.no_hang", false, || format!("{}/{} with line {} {}: no answer in 120 s", pname, fname, line + 1, DAMAGE_KINDS[kind]));
                    c.stop();
                }
                Some(Err((msg, loc))) => {
                    let site = crash_site(&msg, &loc);
                    c.check(&format!("C19.no_crash@{}", site), false, || format!("{}/{} with line {} {}: panicked at {}: {}", pname, fname, line + 1, DAMAGE_KINDS[kind], loc, msg.chars().take(160).collect::<String>()));
                }
                Some(Ok(Err(e))) => {
                    c.check("C19.converted_or_rejected", !e.is_empty(), || "rejected with an empty message".to_string());
                    c.nontrivial(format!("{} {} rejected", fname, DAMAGE_KINDS[kind]));
                    c.sample(|| format!("{}/{} line {} {}: rejected: {}", pname, fname, line + 1, DAMAGE_KINDS[kind], e.chars().take(80).collect::<String>()));
                }
                Some(Ok(Ok(()))) => {
                    c.check("C19.converted_or_rejected", true, || String::new());
                    c.nontrivial(format!("{} {} converted", fname, DAMAGE_KINDS[kind]));
                }
            }
        });
        let _ = std::fs::remove_dir_all(&work);
    }
}
