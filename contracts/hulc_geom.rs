// Contracts for hulc/src/bdl/envelope/geom.rs (polygon helpers used by the geometry conversion).
#![allow(dead_code, unused_imports, non_snake_case, clippy::all)]

use super::*;

#[cfg(kani)]
mod k {
    use super::*;
    use nalgebra::point;

    fn any_finite() -> f32 {
        let v: f32 = kani::any();
        kani::assume(v.is_finite());
        v
    }

    // C03.mirror: mirror_y keeps vertex 0, reverses the order of the rest and negates every y
    #[kani::proof]
    #[kani::unwind(7)]
    fn c03_mirror_y() {
        let n: usize = kani::any();
        kani::assume(n >= 1 && n <= 5);
        let mut v = Vec::new();
        let mut i = 0;
        while i < n {
            v.push(point![any_finite(), any_finite()]);
            i += 1;
        }
        let p = Polygon(v.clone());
        let m = p.mirror_y();
        assert!(m.0.len() == n, "C03.mirror.len");
        assert!(m.0[0].x == v[0].x && m.0[0].y == -v[0].y, "C03.mirror.first");
        let mut k = 1;
        while k < n {
            assert!(m.0[k].x == v[n - k].x && m.0[k].y == -v[n - k].y, "C03.mirror.reversed");
            k += 1;
        }
    }
}
