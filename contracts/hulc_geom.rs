// Contracts for hulc/src/bdl/envelope/geom.rs (polygon helpers used by the geometry conversion).
#![allow(dead_code, unused_imports, non_snake_case, clippy::all)]

/// Hash of every source file of the scratch copy (see engine/common.py): makes cargo rebuild this crate whenever any source changed.
pub const VERIF_SRC_HASH: Option<&str> = option_env!("VERIF_SRC_HASH");

use super::*;

#[cfg(kani)]
mod k {
    use super::*;
    use nalgebra::point;

    fn any_finite() -> f32 {
        let v: f32 = kani::any();
        kani::assume(v.is_finite());
        v
    }

    // C03.mirror: mirror_y keeps vertex 0, reverses the order of the rest and negates every y
    // (one harness per vertex count: with a concrete length every loop unrolls completely)
    fn mirror_y_n(n: usize) {
        let mut v = Vec::with_capacity(n);
        let mut i = 0;
        while i < n {
            v.push(point![any_finite(), any_finite()]);
            i += 1;
        }
        let p = Polygon(v.clone());
        let m = p.mirror_y();
        assert!(m.0.len() == n, "C03.mirror.len");
        assert!(m.0[0].x == v[0].x && m.0[0].y == -v[0].y, "C03.mirror.first");
        let mut k = 1;
        while k < n {
            assert!(m.0[k].x == v[n - k].x && m.0[k].y == -v[n - k].y, "C03.mirror.reversed");
            k += 1;
        }
    }

    #[kani::proof]
    #[kani::unwind(7)]
    fn c03_mirror_y_1() {
        mirror_y_n(1);
    }

    #[kani::proof]
    #[kani::unwind(7)]
    fn c03_mirror_y_3() {
        mirror_y_n(3);
    }

    #[kani::proof]
    #[kani::unwind(7)]
    fn c03_mirror_y_4() {
        mirror_y_n(4);
    }

    #[kani::proof]
    #[kani::unwind(7)]
    fn c03_mirror_y_5() {
        mirror_y_n(5);
    }

    // mirror_y of a polygon without vertices is the empty polygon (a damaged file can leave a space without vertices)
    #[kani::proof]
    #[kani::unwind(3)]
    fn c03_mirror_y_0() {
        let m = Polygon(Vec::new()).mirror_y();
        assert!(m.0.is_empty(), "C03.mirror.empty");
    }

    // C03.edge_vertices: "V<k>" names the side from vertex k to vertex k+1 (cyclically) for 1 <= k <= n; every other
    // name (no V prefix, not a number, 0, beyond n) gives None. Never panics (C19). Symbolic coordinates, concrete names.
    fn edge_vertices_n(n: usize) {
        let mut v = Vec::with_capacity(n);
        let mut i = 0;
        while i < n {
            v.push(point![any_finite(), any_finite()]);
            i += 1;
        }
        let p = Polygon(v.clone());
        let names: [(&str, usize); 9] = [("V1", 1), ("V2", 2), ("V3", 3), ("V4", 4), ("V5", 5), ("V0", 0), ("BOTTOM", 0), ("V", 0), ("Vx", 0)];
        let which: usize = kani::any();
        kani::assume(which < 9);
        let (name, k) = names[which];
        kani::cover!(n == 0 || k == n, "last vertex reachable");
        match p.edge_vertices(name) {
            Some([a, b]) => {
                assert!(k >= 1 && k <= n, "C03.edge_vertices.some_only_for_existing_vertex");
                assert!(a.x == v[k - 1].x && a.y == v[k - 1].y, "C03.edge_vertices.start");
                assert!(b.x == v[k % n].x && b.y == v[k % n].y, "C03.edge_vertices.end_cyclic");
            }
            None => assert!(k == 0 || k > n, "C03.edge_vertices.none_only_for_unknown_vertex"),
        }
    }

    #[kani::proof]
    #[kani::unwind(12)]
    fn c03_edge_vertices_0() {
        edge_vertices_n(0);
    }

    #[kani::proof]
    #[kani::unwind(12)]
    fn c03_edge_vertices_4() {
        edge_vertices_n(4);
    }
}
