// Contracts for hulc/src/bdl/envelope/geom.rs (polygon helpers used by the geometry conversion).
#![allow(dead_code, unused_imports, non_snake_case, clippy::all)]

/// Hash of every source file of the scratch copy (see engine/common.py): makes cargo rebuild this crate whenever any source changed.
pub const VERIF_SRC_HASH: Option<&str> = option_env!("VERIF_SRC_HASH");

use super::*;

#[cfg(kani)]
mod k {
    use super::*;
    use nalgebra::point;

    fn any_finite() -> f32 {
        let v: f32 = kani::any();
        kani::assume(v.is_finite());
        v
    }

    // C03.mirror: mirror_y keeps vertex 0, reverses the order of the rest and negates every y
    // (one harness per vertex count: with a concrete length every loop unrolls completely)
    fn mirror_y_n(n: usize) {
        let mut v = Vec::with_capacity(n);
        let mut i = 0;
        while i < n {
            v.push(point![any_finite(), any_finite()]);
            i += 1;
        }
        let p = Polygon(v.clone());
        let m = p.mirror_y();
        assert!(m.0.len() == n, "C03.mirror.len");
        assert!(m.0[0].x == v[0].x && m.0[0].y == -v[0].y, "C03.mirror.first");
        let mut k = 1;
        while k < n {
            assert!(m.0[k].x == v[n - k].x && m.0[k].y == -v[n - k].y, "C03.mirror.reversed");
            k += 1;
        }
    }

    #[kani::proof]
    #[kani::unwind(7)]
    fn c03_mirror_y_1() {
        mirror_y_n(1);
    }

    #[kani::proof]
    #[kani::unwind(7)]
    fn c03_mirror_y_3() {
        mirror_y_n(3);
    }

    #[kani::proof]
    #[kani::unwind(7)]
    fn c03_mirror_y_4() {
        mirror_y_n(4);
    }

    #[kani::proof]
    #[kani::unwind(7)]
    fn c03_mirror_y_5() {
        mirror_y_n(5);
    }
}
