// Contracts for the `climate` crate (solar geometry helpers that are integer / branch arithmetic).
#![allow(dead_code, unused_imports, non_snake_case, clippy::all)]

use crate::solar::*;
use crate::{MONTH_DAYS};

#[cfg(kani)]
mod k {
    use super::*;

    fn any_f32_in(lo: f32, hi: f32) -> f32 {
        let v: f32 = kani::any();
        kani::assume(v >= lo && v <= hi);
        v
    }

    const DAYS: [u32; 12] = [31, 28, 31, 30, 31, 30, 31, 31, 30, 31, 30, 31];

    // C20.nday: day-of-year numbers agree with the calendar for every date of a non-leap year
    #[kani::proof]
    #[kani::unwind(14)]
    fn c20_nday_from_md() {
        let m: u32 = kani::any();
        let d: u32 = kani::any();
        kani::assume(m >= 1 && m <= 12);
        kani::assume(d >= 1 && d <= DAYS[(m - 1) as usize]);
        kani::cover!(m == 7 && d == 31, "31 July reachable");
        let n = nday_from_md(m, d);
        let mut expect = d;
        let mut i = 1;
        while i < m {
            expect += DAYS[(i - 1) as usize];
            i += 1;
        }
        assert!(n == expect, "C20.nday.calendar");
        assert!(n >= 1 && n <= 365, "C20.nday.range");
    }

    // C20.hourangle: hour angle stays in [-180, 180] for every solar time of a day
    #[kani::proof]
    fn c20_hourangle_range() {
        let t = any_f32_in(0.0, 24.5);
        kani::cover!(true, "precondition satisfiable");
        let w = hourangle_from_tsol(t);
        assert!(w >= -180.0 && w <= 180.0, "C20.hourangle.range");
        // solar noon is 12.5 in this convention (hour centres), 15 degrees per hour, mornings positive
        assert!(hourangle_from_tsol(12.5) == 0.0, "C20.hourangle.noon");
        if t >= 0.5 && t <= 12.5 {
            assert!(w >= 0.0, "C20.hourangle.sign");
        }
    }

    // relative azimuth / tilt between sun and surface are wrapped into [-180, 180]
    #[kani::proof]
    fn c20_sol_surf_wrap() {
        let h = any_f32_in(-180.0, 180.0);
        let az = any_f32_in(-180.0, 180.0);
        kani::cover!(true, "precondition satisfiable");
        let r = azimuth_sol_surf(h, az);
        assert!(r >= -180.0 && r <= 180.0, "C20.azimuth_sol_surf.range");
        let z = any_f32_in(0.0, 180.0);
        let tilt = any_f32_in(0.0, 180.0);
        let t = tilt_sol_surf(z, tilt);
        assert!(t >= -180.0 && t <= 180.0, "C20.tilt_sol_surf.range");
    }

    // C20.idir: beam irradiance on a surface is never negative (holds for ANY value cos() may return)
    #[kani::proof]
    fn c20_idir_nonneg() {
        let g: f32 = kani::any();
        let ang: f32 = kani::any();
        kani::assume(g.is_finite() && ang.is_finite());
        let i = I_dir(g, ang);
        assert!(i >= 0.0, "C20.idir.nonneg");
    }
}
