// Contracts for the `climate` crate (solar geometry helpers that are integer / branch arithmetic).
#![allow(dead_code, unused_imports, non_snake_case, clippy::all)]

/// Hash of every source file of the scratch copy (see engine/common.py): makes cargo rebuild this crate whenever any source changed.
pub const VERIF_SRC_HASH: Option<&str> = option_env!("VERIF_SRC_HASH");

use crate::solar::*;
use crate::{MONTH_DAYS};

#[cfg(kani)]
mod k {
    use super::*;

    fn any_f32_in(lo: f32, hi: f32) -> f32 {
        let v: f32 = kani::any();
        kani::assume(v >= lo && v <= hi);
        v
    }

    const DAYS: [u32; 12] = [31, 28, 31, 30, 31, 30, 31, 31, 30, 31, 30, 31];

    // C20.nday: day-of-year numbers agree with the calendar for every date of a non-leap year
    #[kani::proof]
    #[kani::unwind(14)]
    fn c20_nday_from_md() {
        let m: u32 = kani::any();
        let d: u32 = kani::any();
        kani::assume(m >= 1 && m <= 12);
        kani::assume(d >= 1 && d <= DAYS[(m - 1) as usize]);
        kani::cover!(m == 7 && d == 31, "31 July reachable");
        let n = nday_from_md(m, d);
        let mut expect = d;
        let mut i = 1;
        while i < m {
            expect += DAYS[(i - 1) as usize];
            i += 1;
        }
        assert!(n == expect, "C20.nday.calendar");
        assert!(n >= 1 && n <= 365, "C20.nday.range");
    }

    // C20.hourangle: hour angle stays in [-180, 180] for every solar time of a day
    #[kani::proof]
    fn c20_hourangle_range() {
        let t = any_f32_in(0.0, 24.5);
        kani::cover!(true, "precondition satisfiable");
        let w = hourangle_from_tsol(t);
        assert!(w >= -180.0 && w <= 180.0, "C20.hourangle.range");
        // solar noon is 12.5 in this convention (hour centres), 15 degrees per hour, mornings positive
        assert!(hourangle_from_tsol(12.5) == 0.0, "C20.hourangle.noon");
        if t >= 0.5 && t <= 12.5 {
            assert!(w >= 0.0, "C20.hourangle.sign");
        }
    }

    // relative azimuth / tilt between sun and surface are wrapped into [-180, 180]
    #[kani::proof]
    fn c20_sol_surf_wrap() {
        let h = any_f32_in(-180.0, 180.0);
        let az = any_f32_in(-180.0, 180.0);
        kani::cover!(true, "precondition satisfiable");
        let r = azimuth_sol_surf(h, az);
        assert!(r >= -180.0 && r <= 180.0, "C20.azimuth_sol_surf.range");
        let z = any_f32_in(0.0, 180.0);
        let tilt = any_f32_in(0.0, 180.0);
        let t = tilt_sol_surf(z, tilt);
        assert!(t >= -180.0 && t <= 180.0, "C20.tilt_sol_surf.range");
    }

    // C20.idir: beam irradiance on a surface is never negative (holds for ANY value cos() may return)
    #[kani::proof]
    fn c20_idir_nonneg() {
        let g: f32 = kani::any();
        let ang: f32 = kani::any();
        kani::assume(g.is_finite() && ang.is_finite());
        let i = I_dir(g, ang);
        assert!(i >= 0.0, "C20.idir.nonneg");
    }
}

#[cfg(verif_native)]
#[path = "support.rs"]
mod support;

// =====================================================================================================
// Native bounded obligations: solar geometry against spherical astronomy, radiation identities
// =====================================================================================================
#[cfg(verif_native)]
mod n {
    use super::support::*;
    use crate::solar::*;
    use crate::SolarRadiation;

    fn rad(d: f64) -> f64 {
        d.to_radians()
    }

    fn wrap180(mut a: f64) -> f64 {
        while a > 180.0 {
            a -= 360.0;
        }
        while a < -180.0 {
            a += 360.0;
        }
        a
    }

    /// Sun direction (east, north, up) from latitude, declination and hour angle (degrees; hour angle positive in the
    /// morning, as hourangle_from_tsol defines it)
    fn sun_vec(lat: f64, decl: f64, w: f64) -> (f64, f64, f64) {
        let (sp, cp) = (rad(lat).sin(), rad(lat).cos());
        let (sd, cd) = (rad(decl).sin(), rad(decl).cos());
        let (sw, cw) = (rad(w).sin(), rad(w).cos());
        (cd * sw, cp * sd - sp * cd * cw, sp * sd + cp * cd * cw)
    }

    #[test]
    fn n_c20_sun_position() {
        drive("C20.sunpos", "altitude_sol_from_data / azimuth_sol_from_data / sun_position vs spherical astronomy: latitude -66..66 step 11, declination {-23.45,-10,0,10,23.45}, hour angle -172.5..172.5 step 7.5; sun between 1 and 85 degrees above the horizon", |c| {
            let lat = -66.0 + 11.0 * c.pick(13) as f64;
            let decl = c.of(&[-23.45f64, -10.0, 0.0, 10.0, 23.45]);
            let w = -172.5 + 7.5 * c.pick(47) as f64;
            c.note(format!("lat {} decl {} hour angle {}", lat, decl, w));
            let (e, nrt, up) = sun_vec(lat, decl, w);
            let alt = up.asin().to_degrees();
            let got_alt = altitude_sol_from_data(decl as f32, w as f32, lat as f32) as f64;
            if alt >= 0.01 {
                c.check("C20.sunpos.altitude", (got_alt - alt).abs() <= 0.05, || format!("altitude {} want {}", got_alt, alt));
            } else {
                c.check("C20.sunpos.altitude.below_horizon", got_alt == 0.0, || format!("altitude {} for a sun below the horizon ({})", got_alt, alt));
            }
            if alt >= 1.0 && alt <= 85.0 {
                // azimuth from south, east positive
                let az = e.atan2(-nrt).to_degrees();
                let got = azimuth_sol_from_data(decl as f32, w as f32, got_alt as f32, lat as f32) as f64;
                c.check("C20.sunpos.azimuth", wrap180(got - az).abs() <= 0.5, || format!("azimuth {} want {} (altitude {})", got, az, alt));
                let sp = sun_position(decl as f32, w as f32, crate::Location { latitude: lat as f32, longitude: 0.0, tz: 0 });
                c.check("C20.sunpos.sun_position", (sp.altitude as f64 - alt).abs() <= 0.05 && wrap180(sp.azimuth as f64 - az).abs() <= 0.5, || format!("sun_position {:?} want alt {} az {}", (sp.altitude, sp.azimuth), alt, az));
                c.nontrivial(format!("{} {} {}", lat, decl, w));
            }
            c.sample(|| format!("lat {} decl {} w {} -> alt {} (want {})", lat, decl, w, got_alt, alt));
        });
    }

    // the sun due east / due west (prime vertical): sin(azimuth) reaches +-1, where rounding can leave the argument of
    // asin a hair outside [-1, 1]
    #[test]
    fn n_c20_sun_prime_vertical() {
        drive("C20.sunpos.prime_vertical", "sun_position / azimuth_sol_from_data where the sun crosses the prime vertical: latitude -66..66 step 0.5, declination -23..23 step 0.5 of the same sign and smaller than the latitude, hour angle +-acos(tan d / tan lat) and 0.01 degrees either side, morning and afternoon: azimuth finite and equal to spherical astronomy", |c| {
            let lat = -66.0 + 0.5 * c.pick(265) as f64;
            let decl = -23.0 + 0.5 * c.pick(93) as f64;
            let side = c.of(&[1.0f64, -1.0]);
            let nudge = c.of(&[0.0f64, 0.01, -0.01]);
            if lat.abs() < 1.0 || decl.abs() < 0.25 || decl.signum() != lat.signum() || decl.abs() >= lat.abs() - 0.25 {
                return;
            }
            let w = side * (rad(decl).tan() / rad(lat).tan()).acos().to_degrees() + nudge;
            c.note(format!("lat {} decl {} hour angle {}", lat, decl, w));
            let (e, nrt, up) = sun_vec(lat, decl, w);
            let alt = up.asin().to_degrees();
            if alt < 1.0 || alt > 85.0 {
                return;
            }
            let az = e.atan2(-nrt).to_degrees();
            let sp = sun_position(decl as f32, w as f32, crate::Location { latitude: lat as f32, longitude: 0.0, tz: 0 });
            c.check("C20.sunpos.azimuth_finite", sp.azimuth.is_finite() && sp.altitude.is_finite(), || format!("sun_position gives azimuth {} altitude {} (astronomy: azimuth {} altitude {})", sp.azimuth, sp.altitude, az, alt));
            c.check("C20.sunpos.azimuth", wrap180(sp.azimuth as f64 - az).abs() <= 0.5, || format!("azimuth {} want {} (altitude {})", sp.azimuth, az, alt));
            c.nontrivial(format!("{} {} {} {}", lat, decl, side, nudge));
            c.sample(|| format!("lat {} decl {} w {} -> azimuth {} (want {})", lat, decl, w, sp.azimuth, az));
        });
    }

    #[test]
    fn n_c20_incidence() {
        drive("C20.incidence", "angle_sol_surf vs the angle between the sun direction and the outward normal (tilt 0 = facing up, 90 = vertical; azimuth S=0, E=+90): latitude {-35,0,28.3,40.7,60}, declination {-23.45,0,23.45}, hour angle step 15, tilt {0,30,90,135,180}, azimuth step 45", |c| {
            let lat = c.of(&[-35.0f64, 0.0, 28.3, 40.7, 60.0]);
            let decl = c.of(&[-23.45f64, 0.0, 23.45]);
            let w = -165.0 + 15.0 * c.pick(23) as f64;
            let tilt = c.of(&[0.0f64, 30.0, 90.0, 135.0, 180.0]);
            let saz = -180.0 + 45.0 * c.pick(8) as f64;
            c.note(format!("lat {} decl {} w {} tilt {} surface azimuth {}", lat, decl, w, tilt, saz));
            let (e, nrt, up) = sun_vec(lat, decl, w);
            // outward normal: horizontal part points south turned towards east by the azimuth
            let n = (rad(tilt).sin() * rad(saz).sin(), -rad(tilt).sin() * rad(saz).cos(), rad(tilt).cos());
            let cosang = (e * n.0 + nrt * n.1 + up * n.2).max(-1.0).min(1.0);
            let want = cosang.acos().to_degrees();
            let got = angle_sol_surf(decl as f32, w as f32, lat as f32, tilt as f32, saz as f32) as f64;
            // acos is ill-conditioned at the ends; compare cosines there
            let ok = (got - want).abs() <= 0.1 || (rad(got).cos() - cosang).abs() <= 1e-5;
            c.check("C20.incidence", ok, || format!("incidence angle {} want {}", got, want));
            c.nontrivial(format!("{} {} {} {} {}", lat, decl, w, tilt, saz));
            c.sample(|| format!("lat {} decl {} w {} tilt {} az {} -> {} (want {})", lat, decl, w, tilt, saz, got, want));
        });
    }

    #[test]
    fn n_c20_radiation_identities() {
        drive("C20.radiation", "radiation_for_surface: latitude {28.3,40.7}, day {15,100,172,266,355}, solar hour 5..20, horizontal input (beam,diffuse) in {(500,100),(0,80),(850,60),(0,0)}, albedo {0.2,0.5}: horizontal surface conserves the input (sun >= 6 degrees), downward surface gets albedo x global, beam never negative for 6 tilts x 8 azimuths", |c| {
            let lat = c.of(&[28.3f32, 40.7]);
            let nday = c.of(&[15u32, 100, 172, 266, 355]);
            let hour = 5.0 + c.pick(16) as f32;
            let (dir, dif) = c.of(&[(500.0f32, 100.0f32), (0.0, 80.0), (850.0, 60.0), (0.0, 0.0)]);
            let albedo = c.of(&[0.2f32, 0.5]);
            c.note(format!("lat {} day {} hour {} beam {} diffuse {} albedo {}", lat, nday, hour, dir, dif, albedo));
            let decl = declination_from_nday(nday);
            let w = hourangle_from_tsol(hour);
            let alt = altitude_sol_from_data(decl, w, lat);
            let g = SolarRadiation { dir, dif };
            let hz = radiation_for_surface(nday, hour, g, lat, 0.0, 0.0, albedo);
            if alt >= 6.0 {
                let (got, want) = (hz.dir + hz.dif, dir + dif);
                c.check("C20.radiation.horizontal", (got - want).abs() <= 0.01 * want + 0.01, || format!("horizontal surface receives {} but the horizontal input is {} (altitude {})", got, want, alt));
                c.nontrivial(format!("{} {} {} {} {}", lat, nday, hour, dir, dif));
            }
            if alt >= 0.5 {
                let dn = radiation_for_surface(nday, hour, g, lat, 180.0, 0.0, albedo);
                let (got, want) = (dn.dir + dn.dif, albedo * (dir + dif));
                c.check("C20.radiation.downward", (got - want).abs() <= 0.01 * want + 0.01, || format!("downward surface receives {} want albedo x global = {}", got, want));
            }
            for tilt in [0.0f32, 45.0, 90.0, 120.0, 180.0, 30.0] {
                for k in 0..8 {
                    let az = -180.0 + 45.0 * k as f32;
                    let r = radiation_for_surface(nday, hour, g, lat, tilt, az, albedo);
                    c.check("C20.radiation.beam_nonneg", r.dir >= 0.0, || format!("beam {} on tilt {} azimuth {}", r.dir, tilt, az));
                }
            }
            c.sample(|| format!("lat {} day {} hour {} -> altitude {} horizontal {:?}", lat, nday, hour, alt, (hz.dir, hz.dif)));
        });
    }
}
