// Contracts for bemodel/src/energy/{props.rs, indicators/*.rs, radiation.rs}. Child module of `energy`.
#![allow(dead_code, unused_imports, non_snake_case, clippy::all)]

use std::collections::BTreeMap;

use super::indicators::k::KData;
use super::indicators::n50::N50Data;
use super::indicators::qsoljul::QSolJulData;
use super::props::*;
use crate::{BoundaryType, Orientation, SpaceType, ThermalBridgeKind, Tilt, Uuid};

pub(crate) fn empty_props(global: GlobalProps) -> EnergyProps {
    EnergyProps {
        global,
        spaces: BTreeMap::new(),
        walls: BTreeMap::new(),
        windows: BTreeMap::new(),
        thermal_bridges: BTreeMap::new(),
        shades: BTreeMap::new(),
        wallcons: BTreeMap::new(),
        wincons: BTreeMap::new(),
        sch_year: BTreeMap::new(),
        sch_week: BTreeMap::new(),
        sch_day: BTreeMap::new(),
        loads: BTreeMap::new(),
    }
}

#[cfg(kani)]
mod k {
    use super::*;

    fn any_finite() -> f32 {
        let v: f32 = kani::any();
        kani::assume(v.is_finite());
        v
    }

    // C08 corner case: an envelope without any element has K = 0 and an all-zero report, whatever the globals
    #[kani::proof]
    fn c08_k_no_elements() {
        let g = GlobalProps {
            a_ref: any_finite(),
            vol_env_gross: any_finite(),
            vol_env_net: any_finite(),
            vol_env_inh_net: any_finite(),
            compactness: any_finite(),
            global_ventilation_rate: any_finite(),
            n_50_test_ach: None,
            c_o_100: any_finite(),
            occ_spaces_hours_in_use: kani::any(),
            occ_spaces_average_load: any_finite(),
        };
        let props = empty_props(g);
        let k = KData::from(&props);
        assert!(k.K == 0.0, "C08.empty.K");
        let s = k.summary;
        assert!(s.a == 0.0 && s.au == 0.0 && s.opaques_a == 0.0 && s.windows_a == 0.0 && s.tbs_l == 0.0 && s.tbs_psil == 0.0, "C08.empty.summary");
        assert!(k.walls.u_mean.is_none() && k.windows.u_min.is_none() && k.ground.u_max.is_none(), "C08.empty.no_stats");
    }

    // C09 corner cases that do not depend on the element maps: no envelope wall at all.
    // For EVERY GlobalProps: A_o = A_h = 0; C_o,ref = c_o_100; n50_ref = 0 when V <= 0 (and 0.629*0/V = 0 otherwise);
    // n50 = test value when given, else the reference value; wall permeability = C_o (zero-wall-area branch).
    #[kani::proof]
    fn c09_n50_no_walls() {
        let vol = any_finite();
        let c_o = any_finite();
        let test: Option<f32> = if kani::any() { Some(any_finite()) } else { None };
        let g = GlobalProps {
            a_ref: any_finite(),
            vol_env_gross: any_finite(),
            vol_env_net: vol,
            vol_env_inh_net: any_finite(),
            compactness: any_finite(),
            global_ventilation_rate: any_finite(),
            n_50_test_ach: test,
            c_o_100: c_o,
            occ_spaces_hours_in_use: kani::any(),
            occ_spaces_average_load: any_finite(),
        };
        let props = empty_props(g);
        kani::cover!(test.is_some() && vol > 0.0, "test value with volume reachable");
        let d = N50Data::from(&props);
        assert!(d.walls_a == 0.0 && d.windows_a == 0.0 && d.windows_c_a == 0.0, "C09.empty.areas");
        assert!(d.vol == vol, "C09.vol");
        assert!(d.walls_c_ref == c_o, "C09.c_ref");
        // zero volume => 0; no leakage area => 0 whatever the volume
        assert!(d.n50_ref == 0.0, "C09.zero_volume");
        match test {
            Some(t) => {
                assert!(d.n50 == t, "C09.test.n50");
                assert!(d.walls_c == c_o, "C09.test.zero_wall_area");
            }
            None => {
                assert!(d.n50 == d.n50_ref, "C09.ref.n50");
                assert!(d.walls_c == c_o, "C09.ref.walls_c");
            }
        }
    }
}

// =====================================================================================================
// Native bounded obligations (exhaustive small-scope enumeration on the natively compiled real code)
// =====================================================================================================
#[cfg(verif_native)]
mod n {
    use super::*;
    use crate::verif_root::support::*;
    use std::collections::HashMap;

    fn uid(n: u128) -> Uuid {
        Uuid::from_u128(n)
    }

    fn globals() -> GlobalProps {
        GlobalProps {
            a_ref: 100.0,
            vol_env_gross: 300.0,
            vol_env_net: 250.0,
            vol_env_inh_net: 250.0,
            compactness: 1.0,
            global_ventilation_rate: 0.5,
            n_50_test_ach: None,
            c_o_100: 16.0,
            occ_spaces_hours_in_use: 0,
            occ_spaces_average_load: 0.0,
        }
    }

    fn wallp(bounds: BoundaryType, tilt: Tilt, is_tenv: bool, mult: f32, area_net: f32, u: Option<f32>, ov: Option<f32>) -> WallProps {
        WallProps {
            space: uid(0xA0),
            space_next: None,
            bounds,
            cons: uid(0xC0),
            orientation: Orientation::S,
            tilt,
            area_gross: area_net + 3.0,
            area_net,
            multiplier: mult,
            is_tenv,
            u_value: u,
            u_value_override: ov,
        }
    }

    fn winp(wall: Uuid, wallp: Option<&WallProps>, area: f32, u: Option<f32>, ov: Option<f32>) -> WinProps {
        WinProps {
            cons: uid(0xD0),
            wall,
            orientation: wallp.map(|w| w.orientation).unwrap_or_default(),
            tilt: wallp.map(|w| w.tilt).unwrap_or_default(),
            area,
            multiplier: wallp.map_or(1.0, |w| w.multiplier),
            bounds: wallp.map(|w| w.bounds).unwrap_or_default(),
            is_tenv: wallp.map_or(false, |w| w.is_tenv),
            u_value: u,
            u_value_override: ov,
            f_shobst: None,
            f_shobst_override: None,
        }
    }

    const BOUNDS: [BoundaryType; 4] = [BoundaryType::EXTERIOR, BoundaryType::GROUND, BoundaryType::INTERIOR, BoundaryType::ADIABATIC];
    const TILTS: [Tilt; 3] = [Tilt::TOP, Tilt::BOTTOM, Tilt::SIDE];
    const KINDS: [ThermalBridgeKind; 9] = [
        ThermalBridgeKind::ROOF,
        ThermalBridgeKind::BALCONY,
        ThermalBridgeKind::CORNER,
        ThermalBridgeKind::INTERMEDIATEFLOOR,
        ThermalBridgeKind::INTERNALWALL,
        ThermalBridgeKind::GROUNDFLOOR,
        ThermalBridgeKind::PILLAR,
        ThermalBridgeKind::WINDOW,
        ThermalBridgeKind::GENERIC,
    ];

    /// The statement of C08 as an independent oracle over an EnergyProps value (f64 arithmetic).
    struct KOracle {
        a: f64,
        au: f64,
        op_a: f64,
        op_au: f64,
        win_a: f64,
        win_au: f64,
        tb_l: f64,
        tb_psil: f64,
        // per category (walls, roofs, floors, ground): (a, au)
        cat: [(f64, f64); 4],
        tb_kind: [(f64, f64); 9],
    }

    fn k_oracle(p: &EnergyProps) -> KOracle {
        let mut o = KOracle { a: 0.0, au: 0.0, op_a: 0.0, op_au: 0.0, win_a: 0.0, win_au: 0.0, tb_l: 0.0, tb_psil: 0.0, cat: [(0.0, 0.0); 4], tb_kind: [(0.0, 0.0); 9] };
        for (wid, w) in &p.walls {
            let in_scope = w.is_tenv && (w.bounds == BoundaryType::EXTERIOR || w.bounds == BoundaryType::GROUND);
            if !in_scope {
                continue;
            }
            let u = w.u_value_override.or(w.u_value).unwrap_or(5.7) as f64;
            let a = w.multiplier as f64 * w.area_net as f64;
            o.op_a += a;
            o.op_au += a * u;
            let c = if w.bounds == BoundaryType::GROUND {
                3
            } else {
                match w.tilt {
                    Tilt::SIDE => 0,
                    Tilt::TOP => 1,
                    Tilt::BOTTOM => 2,
                }
            };
            o.cat[c].0 += a;
            o.cat[c].1 += a * u;
            for win in p.windows.values().filter(|win| &win.wall == wid) {
                let uw = win.u_value_override.or(win.u_value).unwrap_or(5.7) as f64;
                let aw = w.multiplier as f64 * win.area as f64;
                o.win_a += aw;
                o.win_au += aw * uw;
            }
        }
        for tb in p.thermal_bridges.values() {
            if tb.l < 0.0 {
                continue;
            }
            let k = KINDS.iter().position(|k| *k == tb.kind).unwrap();
            o.tb_kind[k].0 += tb.l as f64;
            o.tb_kind[k].1 += tb.psi as f64 * tb.l as f64;
            o.tb_l += tb.l as f64;
            o.tb_psil += tb.psi as f64 * tb.l as f64;
        }
        o.a = o.op_a + o.win_a;
        o.au = o.op_au + o.win_au + o.tb_psil;
        o
    }

    const REL: f64 = 2.0e-4;
    const ABS: f64 = 2.0e-4;

    fn check_kdata(c: &mut Ctx, p: &EnergyProps, k: &KData) {
        let o = k_oracle(p);
        let s = &k.summary;
        let d = |name: &str, got: f32, want: f64| format!("{}: got {} want {}", name, got, want);
        c.check("C08.sum.a", approx64(s.a, o.a, REL, ABS), || d("summary.a", s.a, o.a));
        c.check("C08.sum.au", approx64(s.au, o.au, REL, ABS), || d("summary.au", s.au, o.au));
        c.check("C08.sum.opaques", approx64(s.opaques_a, o.op_a, REL, ABS) && approx64(s.opaques_au, o.op_au, REL, ABS), || d("opaques_a", s.opaques_a, o.op_a));
        c.check("C08.sum.windows", approx64(s.windows_a, o.win_a, REL, ABS) && approx64(s.windows_au, o.win_au, REL, ABS), || d("windows_au", s.windows_au, o.win_au));
        c.check("C08.sum.tbs", approx64(s.tbs_l, o.tb_l, REL, ABS) && approx64(s.tbs_psil, o.tb_psil, REL, ABS), || d("tbs_psil", s.tbs_psil, o.tb_psil));
        let k_want = if o.a < 0.01 { 0.0 } else { o.au / o.a };
        // near the 0.01 m2 cut-off float summation may land on either side: accept both there
        let near_cut = (o.a - 0.01).abs() < 1.0e-6;
        c.check("C08.K", near_cut || approx64(k.K, k_want, REL, ABS), || d("K", k.K, k_want));
        // breakdown adds up to the totals
        let cats = [&k.walls, &k.roofs, &k.floors, &k.ground];
        for (i, e) in cats.iter().enumerate() {
            c.check("C08.breakdown.category", approx64(e.a, o.cat[i].0, REL, ABS) && approx64(e.au, o.cat[i].1, REL, ABS), || {
                format!("category {} a={} au={} want a={} au={}", i, e.a, e.au, o.cat[i].0, o.cat[i].1)
            });
        }
        c.check("C08.breakdown.windows", approx64(k.windows.a, o.win_a, REL, ABS) && approx64(k.windows.au, o.win_au, REL, ABS), || d("windows.a", k.windows.a, o.win_a));
        let sum_a = k.walls.a + k.roofs.a + k.floors.a + k.ground.a + k.windows.a;
        let sum_au = k.walls.au + k.roofs.au + k.floors.au + k.ground.au + k.windows.au + s.tbs_psil;
        c.check("C08.breakdown.adds_up", approx(sum_a, s.a, 2.0e-4, 2.0e-4) && approx(sum_au, s.au, 2.0e-4, 2.0e-4), || format!("sum of categories a={} au={} vs summary a={} au={}", sum_a, sum_au, s.a, s.au));
        let tbs = [&k.tbs.roof, &k.tbs.balcony, &k.tbs.corner, &k.tbs.intermediate_floor, &k.tbs.internal_wall, &k.tbs.ground_floor, &k.tbs.pillar, &k.tbs.window, &k.tbs.generic];
        for (i, t) in tbs.iter().enumerate() {
            c.check("C08.breakdown.tb_kind", approx64(t.l, o.tb_kind[i].0, REL, ABS) && approx64(t.psil, o.tb_kind[i].1, REL, ABS), || {
                format!("tb kind {} l={} psil={} want l={} psil={}", i, t.l, t.psil, o.tb_kind[i].0, o.tb_kind[i].1)
            });
        }
        // each category mean lies between its minimum and maximum, and is the area-weighted mean
        for (i, e) in [&k.walls, &k.roofs, &k.floors, &k.ground, &k.windows].iter().enumerate() {
            if let (Some(mn), Some(mx)) = (e.u_min, e.u_max) {
                c.check("C08.minmax.order", mn <= mx, || format!("cat {} u_min {} > u_max {}", i, mn, mx));
                if let Some(mean) = e.u_mean {
                    let nonneg = p.walls.values().all(|w| w.area_net >= 0.0 && w.multiplier >= 0.0) && p.windows.values().all(|w| w.area >= 0.0);
                    if nonneg {
                        c.check("C08.minmax.mean_between", mean >= mn - 1.0e-3 * mn.abs() - 1.0e-4 && mean <= mx + 1.0e-3 * mx.abs() + 1.0e-4, || format!("cat {} mean {} not in [{}, {}]", i, mean, mn, mx));
                    }
                    c.check("C08.minmax.mean_value", approx(mean, e.au / e.a, 1.0e-4, 1.0e-5), || format!("cat {} mean {} != au/a {}", i, mean, e.au / e.a));
                }
            } else {
                c.check("C08.minmax.none_iff_empty", e.u_min.is_none() && e.u_max.is_none() && e.u_mean.is_none() && e.a == 0.0, || format!("cat {}: partial min/max/mean {:?} {:?} {:?} a={}", i, e.u_min, e.u_max, e.u_mean, e.a));
            }
        }
    }

    /// Re-key every element (order of the BTreeMaps is reversed) keeping all references consistent
    fn rekey(p: &EnergyProps) -> EnergyProps {
        let f = |u: &Uuid| Uuid::from_u128(u128::MAX - u.as_u128());
        let mut q = p.clone();
        q.walls = p.walls.iter().map(|(k, v)| (f(k), v.clone())).collect();
        q.windows = p
            .windows
            .iter()
            .map(|(k, v)| {
                let mut v = v.clone();
                v.wall = f(&v.wall);
                (f(k), v)
            })
            .collect();
        q.thermal_bridges = p.thermal_bridges.iter().map(|(k, v)| (f(k), v.clone())).collect();
        q
    }

    fn check_rekey(c: &mut Ctx, p: &EnergyProps, k: &KData) {
        let k2 = KData::from(&rekey(p));
        c.check("C08.rename_reorder_invariant", approx(k.K, k2.K, 1.0e-5, 1.0e-6) && approx(k.summary.a, k2.summary.a, 1.0e-5, 1.0e-6) && approx(k.summary.au, k2.summary.au, 1.0e-5, 1.0e-6), || {
            format!("K {} vs {} after renaming/reordering", k.K, k2.K)
        });
    }

    fn any_wall(c: &mut Ctx) -> WallProps {
        let b = c.of(&BOUNDS);
        let t = c.of(&TILTS);
        let tenv = c.flag();
        let m = c.of(&[1.0f32, 2.5]);
        let a = c.of(&[0.004f32, 0.05, 12.34]);
        let u = c.of(&[None, Some(0.2f32)]);
        let ov = c.of(&[None, Some(0.5f32)]);
        wallp(b, t, tenv, m, a, u, ov)
    }

    // ---- C08: walls --------------------------------------------------------------------------------
    #[test]
    fn n_c08_kdata_walls() {
        drive(
            "C08.kdata.walls",
            "KData::from(&EnergyProps): 2 walls, each over 4 boundary kinds x 3 tilts x in/out of envelope x multiplier {1,2.5} x net area {0.004,0.05,12.34} x computed U {none,0.2} x override {none,0.5}; one window on wall 0; 2 fixed bridges",
            |c| {
                let w0 = any_wall(c);
                let w1 = any_wall(c);
                let mut p = empty_props(globals());
                let win = winp(uid(1), Some(&w0), 1.5, Some(1.1), None);
                p.walls.insert(uid(1), w0.clone());
                p.walls.insert(uid(2), w1.clone());
                if c.tier_thorough {
                    // thorough: a third wall over boundary kind x in/out x computed U {none, 0.2}
                    let b = c.of(&BOUNDS);
                    let tenv = c.flag();
                    let u = c.of(&[None, Some(0.2f32)]);
                    p.walls.insert(uid(3), wallp(b, Tilt::TOP, tenv, 1.5, 7.5, u, None));
                }
                p.windows.insert(uid(11), win);
                p.thermal_bridges.insert(uid(21), TbProps { kind: ThermalBridgeKind::CORNER, l: 4.0, psi: 0.1 });
                p.thermal_bridges.insert(uid(22), TbProps { kind: ThermalBridgeKind::WINDOW, l: -1.0, psi: 0.3 });
                c.note(format!("w0={:?} w1={:?}", w0, w1));
                let k = KData::from(&p);
                check_kdata(c, &p, &k);
                check_rekey(c, &p, &k);
                if k.summary.opaques_a > 0.0 {
                    c.nontrivial(format!("{:?}{:?}{}{:?}{:?}|{:?}{:?}{}{:?}{:?}", w0.bounds, w0.tilt, w0.is_tenv, w0.u_value, w0.u_value_override, w1.bounds, w1.tilt, w1.is_tenv, w1.u_value, w1.u_value_override));
                }
                c.sample(|| format!("w0={:?} w1={:?} -> K={} a={} au={}", w0, w1, k.K, k.summary.a, k.summary.au));
            },
        );
    }

    // ---- C08: windows ------------------------------------------------------------------------------
    #[test]
    fn n_c08_kdata_windows() {
        drive(
            "C08.kdata.windows",
            "KData::from(&EnergyProps): 2 walls (wall 0 over 4 boundary kinds x in/out x multiplier {1,2}; wall 1 fixed exterior), 2 windows each over host {wall0, wall1, dangling} x computed U {none,1.1} x override {none,2.2} x area {0,1.5}",
            |c| {
                let b = c.of(&BOUNDS);
                let tenv = c.flag();
                let m = c.of(&[1.0f32, 2.0]);
                let w0 = wallp(b, Tilt::SIDE, tenv, m, 10.0, Some(0.3), None);
                let w1 = wallp(BoundaryType::EXTERIOR, Tilt::TOP, true, 1.0, 20.0, Some(0.25), None);
                let mut p = empty_props(globals());
                p.walls.insert(uid(1), w0.clone());
                p.walls.insert(uid(2), w1.clone());
                let mut desc = vec![];
                for i in 0..2u128 {
                    let host = c.pick(3);
                    let u = c.of(&[None, Some(1.1f32)]);
                    let ov = c.of(&[None, Some(2.2f32)]);
                    let area = c.of(&[0.0f32, 1.5]);
                    let (hid, hw) = match host {
                        0 => (uid(1), Some(&w0)),
                        1 => (uid(2), Some(&w1)),
                        _ => (uid(0x99), None),
                    };
                    p.windows.insert(uid(11 + i), winp(hid, hw, area, u, ov));
                    desc.push(format!("win{}: host={} u={:?} ov={:?} a={}", i, host, u, ov, area));
                }
                c.note(format!("w0: {:?} tenv={} m={} | {}", b, tenv, m, desc.join(" | ")));
                let k = KData::from(&p);
                check_kdata(c, &p, &k);
                check_rekey(c, &p, &k);
                if k.windows.a > 0.0 {
                    c.nontrivial(format!("{:?}{}{}|{}", b, tenv, m, desc.join("|")));
                }
                c.sample(|| format!("{} -> K={} windows a={} au={}", desc.join(" | "), k.K, k.windows.a, k.windows.au));
            },
        );
    }

    // ---- C08: thermal bridges ----------------------------------------------------------------------
    #[test]
    fn n_c08_kdata_bridges() {
        drive(
            "C08.kdata.bridges",
            "KData::from(&EnergyProps): 1 exterior wall; 2 bridges each over 9 kinds x length {-1,-0.0,0,2.5} x psi {-0.1,0,0.5}",
            |c| {
                let mut p = empty_props(globals());
                p.walls.insert(uid(1), wallp(BoundaryType::EXTERIOR, Tilt::SIDE, true, 1.0, 10.0, Some(0.3), None));
                let mut desc = vec![];
                for i in 0..2u128 {
                    let kind = c.of(&KINDS);
                    let l = c.of(&[-1.0f32, -0.0, 0.0, 2.5]);
                    let psi = c.of(&[-0.1f32, 0.0, 0.5]);
                    p.thermal_bridges.insert(uid(21 + i), TbProps { kind, l, psi });
                    desc.push(format!("{:?} l={} psi={}", kind, l, psi));
                }
                c.note(desc.join(" | "));
                let k = KData::from(&p);
                check_kdata(c, &p, &k);
                check_rekey(c, &p, &k);
                if k.summary.tbs_l > 0.0 {
                    c.nontrivial(desc.join("|"));
                }
                c.sample(|| format!("{} -> tbs_l={} tbs_psil={} K={}", desc.join(" | "), k.summary.tbs_l, k.summary.tbs_psil, k.K));
            },
        );
    }

    // ---- C09: n50 ------------------------------------------------------------------------------------
    fn wcp(c_100: f32) -> WinConsProps {
        WinConsProps { g_glwi: 0.6, g_glshwi: 0.3, u_value: Some(1.5), c_100, f_f: 0.25 }
    }

    #[test]
    fn n_c09_n50() {
        drive(
            "C09.n50",
            "N50Data::from(&EnergyProps): 2 walls each over 4 boundary kinds x in/out x multiplier {1,2} x net area {0,10}; 2 windows each over host {wall0,wall1,dangling} x construction {C=27, C=9, missing}; volume {0,250}; blower-door result {none,3.0,0.05}; C_o {16,29}",
            |c| {
                let vol = c.of(&[0.0f32, 250.0]);
                // (0.05 is below what the windows alone leak: the wall permeability solving the equation is then negative)
                let test = c.of(&[None, Some(3.0f32), Some(0.05f32)]);
                let c_o = c.of(&[16.0f32, 29.0]);
                let mut g = globals();
                g.vol_env_net = vol;
                g.n_50_test_ach = test;
                g.c_o_100 = c_o;
                let mut p = empty_props(g);
                p.wincons.insert(uid(0xD1), wcp(27.0));
                p.wincons.insert(uid(0xD2), wcp(9.0));
                let mut ws = vec![];
                for i in 0..2u128 {
                    let b = c.of(&BOUNDS);
                    let tenv = c.flag();
                    let m = c.of(&[1.0f32, 2.0]);
                    let a = c.of(&[0.0f32, 10.0]);
                    let w = wallp(b, Tilt::SIDE, tenv, m, a, Some(0.3), None);
                    p.walls.insert(uid(1 + i), w.clone());
                    ws.push(w);
                }
                let mut desc = vec![];
                for i in 0..2u128 {
                    let host = c.pick(3);
                    let cons = c.pick(3);
                    let (hid, hw) = match host {
                        0 => (uid(1), Some(&ws[0])),
                        1 => (uid(2), Some(&ws[1])),
                        _ => (uid(0x99), None),
                    };
                    let mut win = winp(hid, hw, 1.5, Some(1.5), None);
                    win.cons = match cons {
                        0 => uid(0xD1),
                        1 => uid(0xD2),
                        _ => uid(0xDE),
                    };
                    p.windows.insert(uid(11 + i), win);
                    desc.push(format!("win{} host={} cons={}", i, host, cons));
                }
                c.note(format!("vol={} test={:?} c_o={} walls={:?} {}", vol, test, c_o, ws.iter().map(|w| (w.bounds, w.is_tenv, w.multiplier, w.area_net)).collect::<Vec<_>>(), desc.join(" ")));
                // independent oracle from the statement
                let mut a_o = 0.0f64;
                let mut a_h = 0.0f64;
                let mut ch_ah = 0.0f64;
                for (wid, w) in &p.walls {
                    if !(w.is_tenv && w.bounds == BoundaryType::EXTERIOR) {
                        continue;
                    }
                    a_o += w.multiplier as f64 * w.area_net as f64;
                    for win in p.windows.values().filter(|x| &x.wall == wid) {
                        let ch = p.wincons.get(&win.cons).map_or(100.0, |x| x.c_100) as f64;
                        a_h += w.multiplier as f64 * win.area as f64;
                        ch_ah += w.multiplier as f64 * win.area as f64 * ch;
                    }
                }
                let v = vol as f64;
                let n50_ref = if v > 0.0 { 0.629 * (c_o as f64 * a_o + ch_ah) / v } else { 0.0 };
                let d = N50Data::from(&p);
                c.check("C09.areas", approx64(d.walls_a, a_o, 1e-5, 1e-5) && approx64(d.windows_a, a_h, 1e-5, 1e-5) && approx64(d.windows_c_a, ch_ah, 1e-5, 1e-5), || {
                    format!("A_o {} (want {}), A_h {} (want {}), sum C_h A_h {} (want {})", d.walls_a, a_o, d.windows_a, a_h, d.windows_c_a, ch_ah)
                });
                c.check("C09.n50_ref", approx64(d.n50_ref, n50_ref, 1e-4, 1e-6), || format!("n50_ref {} want {}", d.n50_ref, n50_ref));
                c.check("C09.vol", d.vol == vol, || format!("vol {} want {}", d.vol, vol));
                c.check("C09.c_ref", d.walls_c_ref == c_o, || format!("walls_c_ref {} want {}", d.walls_c_ref, c_o));
                if a_h > 0.001 {
                    c.check("C09.windows_c_mean", approx64(d.windows_c, ch_ah / a_h, 1e-4, 1e-5), || format!("windows_c {} want {}", d.windows_c, ch_ah / a_h));
                }
                match test {
                    Some(t) => {
                        c.check("C09.test.n50", d.n50 == t, || format!("n50 {} want test value {}", d.n50, t));
                        if a_o > 0.001 && v > 0.0 {
                            // reported wall permeability satisfies the same equation
                            let back = 0.629 * (d.walls_c as f64 * a_o + ch_ah) / v;
                            c.check("C09.test.walls_c_equation", (back - t as f64).abs() <= 1e-3 * (t as f64).abs() + 1e-4, || format!("0.629*(C_o*A_o+sum)/V = {} with reported C_o {} but n50_test = {}", back, d.walls_c, t));
                            c.check("C09.test.walls_c_a", approx64(d.walls_c_a, d.walls_c as f64 * a_o, 1e-4, 1e-4), || format!("walls_c_a {}", d.walls_c_a));
                        } else if a_o <= 0.001 {
                            c.check("C09.test.zero_wall_area", d.walls_c == c_o, || format!("walls_c {} want C_o {}", d.walls_c, c_o));
                        }
                    }
                    None => {
                        c.check("C09.ref.n50", approx64(d.n50, n50_ref, 1e-4, 1e-6), || format!("n50 {} want {}", d.n50, n50_ref));
                        c.check("C09.ref.walls_c", d.walls_c == c_o && approx64(d.walls_c_a, c_o as f64 * a_o, 1e-5, 1e-5), || format!("walls_c {} walls_c_a {}", d.walls_c, d.walls_c_a));
                    }
                }
                if a_o > 0.0 || a_h > 0.0 {
                    c.nontrivial(format!("{}|{:?}|{}|{:.3}|{:.3}|{:.3}", vol, test, c_o, a_o, a_h, ch_ah));
                }
                c.sample(|| format!("vol={} test={:?} C_o={} A_o={} A_h={} -> n50={} n50_ref={} walls_c={}", vol, test, c_o, a_o, a_h, d.n50, d.n50_ref, d.walls_c));
            },
        );
    }

    // ---- C10: q_sol;jul -------------------------------------------------------------------------------
    const ORIENTS: [Orientation; 9] = [Orientation::N, Orientation::NE, Orientation::E, Orientation::SE, Orientation::S, Orientation::SW, Orientation::W, Orientation::NW, Orientation::HZ];

    fn radtable() -> HashMap<Orientation, f32> {
        // distinct primes: a wrong orientation lookup cannot cancel out
        let vals = [23.0f32, 41.0, 67.0, 83.0, 97.0, 79.0, 61.0, 43.0, 131.0];
        ORIENTS.iter().cloned().zip(vals.iter().cloned()).collect()
    }

    #[test]
    fn n_c10_qsoljul() {
        drive(
            "C10.qsoljul",
            "QSolJulData::from(&EnergyProps, table): 2 windows each over orientation {S,NE,HZ} x host boundary {EXTERIOR,GROUND,INTERIOR} x in/out x multiplier {1,2} x computed F_sh,obst {none,0.8} x override {none,0.6,0.95} x construction {present,missing}; A_ref {100, 0}; 9-entry irradiation table of distinct primes",
            |c| {
                let a_ref = c.of(&[100.0f32, 0.0]);
                let mut g = globals();
                g.a_ref = a_ref;
                let mut p = empty_props(g);
                p.wincons.insert(uid(0xD1), WinConsProps { g_glwi: 0.6, g_glshwi: 0.3, u_value: Some(1.5), c_100: 27.0, f_f: 0.25 });
                let tab = radtable();
                let mut desc = vec![];
                let mut q_want = 0.0f64;
                let mut a_want = 0.0f64;
                let mut per_orient: HashMap<Orientation, (f64, f64, f64, f64, f64)> = HashMap::new(); // gains, a, ff*a, g*a, fsh*a
                let nwin: u128 = if c.tier_thorough { 3 } else { 2 };
                for i in 0..nwin {
                    // (the third window of the thorough tier ranges over the six remaining orientation classes only)
                    let third = i >= 2;
                    let o = if !third { c.of(&[Orientation::S, Orientation::NE, Orientation::HZ]) } else { c.of(&[Orientation::W, Orientation::SE, Orientation::N, Orientation::E, Orientation::SW, Orientation::NW]) };
                    let b = if third { BoundaryType::EXTERIOR } else { c.of(&[BoundaryType::EXTERIOR, BoundaryType::GROUND, BoundaryType::INTERIOR]) };
                    let tenv = if third { true } else { c.flag() };
                    let m = if third { 1.5 } else { c.of(&[1.0f32, 2.0]) };
                    let fsh = if third { Some(0.7) } else { c.of(&[None, Some(0.8f32)]) };
                    let fov = if third { None } else { c.of(&[None, Some(0.6f32), Some(0.95)]) };
                    let has_cons = c.flag();
                    let area = 1.5f32 + i as f32;
                    let win = WinProps {
                        cons: if has_cons { uid(0xD1) } else { uid(0xDE) },
                        wall: uid(1 + i),
                        orientation: o,
                        tilt: if o == Orientation::HZ { Tilt::TOP } else { Tilt::SIDE },
                        area,
                        multiplier: m,
                        bounds: b,
                        is_tenv: tenv,
                        u_value: Some(1.5),
                        u_value_override: None,
                        f_shobst: fsh,
                        f_shobst_override: fov,
                    };
                    p.windows.insert(uid(11 + i), win);
                    desc.push(format!("win{}: {:?} {:?} tenv={} m={} fsh={:?} ov={:?} cons={}", i, o, b, tenv, m, fsh, fov, has_cons));
                    if tenv && (b == BoundaryType::EXTERIOR || b == BoundaryType::GROUND) {
                        let f = fov.or(fsh).unwrap_or(1.0) as f64;
                        let (g, ff) = if has_cons { (0.3f64, 0.25f64) } else { (0.77f64, 0.20f64) };
                        let a = area as f64 * m as f64;
                        let h = tab[&o] as f64;
                        let gains = f * g * (1.0 - ff) * a * h;
                        q_want += gains;
                        a_want += a;
                        let e = per_orient.entry(o).or_insert((0.0, 0.0, 0.0, 0.0, 0.0));
                        e.0 += gains;
                        e.1 += a;
                        e.2 += ff * a;
                        e.3 += g * a;
                        e.4 += f * a;
                    }
                }
                c.note(format!("A_ref={} | {}", a_ref, desc.join(" | ")));
                let d = QSolJulData::from(&p, &tab);
                c.check("C10.gains", approx64(d.Q_soljul, q_want, 1e-4, 1e-5), || format!("Q_soljul {} want {}", d.Q_soljul, q_want));
                if a_ref > 0.0 {
                    c.check("C10.q", approx64(d.q_soljul, q_want / a_ref as f64, 1e-4, 1e-6), || format!("q_soljul {} want {}", d.q_soljul, q_want / a_ref as f64));
                }
                c.check("C10.area", approx64(d.a_wp, a_want, 1e-5, 1e-6), || format!("a_wp {} want {}", d.a_wp, a_want));
                let sum_g: f32 = d.detail.values().map(|x| x.gains).sum();
                let sum_a: f32 = d.detail.values().map(|x| x.a).sum();
                c.check("C10.breakdown.adds_up", approx(sum_g, d.Q_soljul, 1e-4, 1e-5) && approx(sum_a, d.a_wp, 1e-4, 1e-5), || format!("sum gains {} vs {}, sum a {} vs {}", sum_g, d.Q_soljul, sum_a, d.a_wp));
                c.check("C10.breakdown.orientations", d.detail.len() == per_orient.len(), || format!("{} orientation entries, want {}", d.detail.len(), per_orient.len()));
                for (o, e) in &per_orient {
                    match d.detail.get(o) {
                        None => c.check("C10.breakdown.orientations", false, || format!("missing entry for {:?}", o)),
                        Some(x) => {
                            c.check("C10.breakdown.entry", approx64(x.gains, e.0, 1e-4, 1e-5) && approx64(x.a, e.1, 1e-5, 1e-6) && x.irradiance == tab[o], || format!("{:?}: gains {} want {}, a {} want {}, H {}", o, x.gains, e.0, x.a, e.1, x.irradiance));
                            if e.1 > 0.0 {
                                c.check("C10.means.orientation", approx64(x.f_f_mean, e.2 / e.1, 1e-4, 1e-6) && approx64(x.gglshwi_mean, e.3 / e.1, 1e-4, 1e-6) && approx64(x.fshobst_mean, e.4 / e.1, 1e-4, 1e-6), || format!("{:?}: means {} {} {} want {} {} {}", o, x.f_f_mean, x.gglshwi_mean, x.fshobst_mean, e.2 / e.1, e.3 / e.1, e.4 / e.1));
                            }
                        }
                    }
                }
                if a_want > 0.0 {
                    let tot = per_orient.values().fold((0.0, 0.0, 0.0), |acc, e| (acc.0 + e.2, acc.1 + e.3, acc.2 + e.4));
                    let hmean: f64 = per_orient.iter().map(|(o, e)| tab[o] as f64 * e.1).sum::<f64>() / a_want;
                    c.check("C10.means.global", approx64(d.f_f_mean, tot.0 / a_want, 1e-4, 1e-6) && approx64(d.gglshwi_mean, tot.1 / a_want, 1e-4, 1e-6) && approx64(d.fshobst_mean, tot.2 / a_want, 1e-4, 1e-6) && approx64(d.irradiance_mean, hmean, 1e-4, 1e-5), || {
                        format!("global means ff {} g {} fsh {} H {} want {} {} {} {}", d.f_f_mean, d.gglshwi_mean, d.fshobst_mean, d.irradiance_mean, tot.0 / a_want, tot.1 / a_want, tot.2 / a_want, hmean)
                    });
                    c.nontrivial(desc.join("|"));
                } else {
                    // no window of the envelope in contact with air or ground: every reported figure is a finite number
                    let all = [d.q_soljul, d.Q_soljul, d.a_wp, d.irradiance_mean, d.fshobst_mean, d.gglshwi_mean, d.f_f_mean];
                    c.check("C10.no_window.finite", all.iter().all(|x| x.is_finite()), || format!("figures {:?}", all));
                    c.check("C10.no_window.zero", d.Q_soljul == 0.0 && d.a_wp == 0.0 && d.detail.is_empty(), || format!("Q {} a {} detail {}", d.Q_soljul, d.a_wp, d.detail.len()));
                }
                c.sample(|| format!("{} -> Q={} q={} a_wp={}", desc.join(" | "), d.Q_soljul, d.q_soljul, d.a_wp));
            },
        );
    }

    // C10: the indicators use the table of the MODEL's climate zone and the orientation class of the window's wall
    #[test]
    fn n_c10_zone_and_class() {
        drive("C10.zone", "Model::energy_indicators: one window on a wall facing each of the 8 compass classes / on a roof / on a floor over outside air, all 32 climate zones: Q_sol;jul = 0.77 x 0.8 x A x H_sol;jul[zone][class]", |c| {
            use crate::climatedata::{total_radiation_in_july_by_orientation, ClimateZone};
            use std::convert::TryFrom;
            let zname = climate::CTE_CLIMATEZONES[c.pick(climate::CTE_CLIMATEZONES.len())];
            let zone = match ClimateZone::try_from(zname) {
                Ok(z) => z,
                Err(_) => {
                    c.check("C10.table.zone_parses", false, || format!("zone {} does not parse", zname));
                    return;
                }
            };
            let (tilt, az, class) = c.of(&[
                (90.0f32, 0.0f32, Orientation::S), (90.0, 45.0, Orientation::SE), (90.0, 90.0, Orientation::E), (90.0, 135.0, Orientation::NE), (90.0, 180.0, Orientation::N),
                (90.0, -135.0, Orientation::NW), (90.0, -90.0, Orientation::W), (90.0, -40.0, Orientation::SW), (0.0, 0.0, Orientation::HZ), (180.0, 30.0, Orientation::HZ),
            ]);
            c.note(format!("zone {} tilt {} azimuth {}", zone, tilt, az));
            let mut m = mk::empty_model();
            m.meta.climate = zone;
            m.spaces.push(mk::space(0xA0, true, ST::CONDITIONED, 1.0, 3.0));
            m.walls.push(mk::wall(1, BT::EXTERIOR, mk::uid(0xA0), None, mk::uid(0xC0), 180.0, 0.0, mk::rect(4.0, 5.0), None));
            m.walls.push(mk::wall(2, BT::EXTERIOR, mk::uid(0xA0), None, mk::uid(0xC0), tilt, az, mk::rect(4.0, 3.0), None));
            m.windows.push(mk::window(0x11, mk::uid(2), mk::uid(0xDE), 2.0, 1.5, None, 0.0));
            let ind = m.energy_indicators();
            let h = total_radiation_in_july_by_orientation(&zone)[&class];
            let want = 0.77f64 * (1.0 - 0.20) * 3.0 * h as f64;
            c.check("C10.zone.gains", approx64(ind.q_soljul_data.Q_soljul, want, 1e-4, 1e-4), || format!("Q_sol;jul {} want {} (H {} for {:?} in {})", ind.q_soljul_data.Q_soljul, want, h, class, zone));
            // the reference area is the floor area of the space: the 4 x 5 floor, plus the 4 x 3 element when it is a floor too
            let a_ref = if tilt == 180.0 { 32.0 } else { 20.0 };
            c.check("C10.zone.q", approx64(ind.q_soljul_data.q_soljul, want / a_ref, 1e-4, 1e-5), || format!("q_sol;jul {} want {}", ind.q_soljul_data.q_soljul, want / a_ref));
            c.check("C10.zone.class", ind.q_soljul_data.detail.len() == 1 && ind.q_soljul_data.detail.contains_key(&class), || format!("breakdown keys {:?} want {:?}", ind.q_soljul_data.detail.keys().collect::<Vec<_>>(), class));
            c.nontrivial(format!("{} {} {}", zone, tilt, az));
            c.sample(|| format!("zone {} class {:?} -> Q {}", zone, class, ind.q_soljul_data.Q_soljul));
        });
    }

    // C10: the table the indicators use exists for every zone and class, and is non-negative
    #[test]
    fn n_c10_july_table() {
        use crate::climatedata::{total_radiation_in_july_by_orientation, ClimateZone};
        use std::convert::TryFrom;
        drive("C10.table", "total_radiation_in_july_by_orientation for all 32 climate zones x 9 orientation classes", |c| {
            let zi = c.pick(climate::CTE_CLIMATEZONES.len());
            let zname = climate::CTE_CLIMATEZONES[zi];
            let zone = ClimateZone::try_from(zname);
            c.note(format!("zone {}", zname));
            c.check("C10.table.zone_parses", zone.is_ok(), || format!("zone {} does not parse", zname));
            if let Ok(z) = zone {
                let t = total_radiation_in_july_by_orientation(&z);
                c.check("C10.table.complete", t.len() == 9 && ORIENTS.iter().all(|o| t.contains_key(o)), || format!("zone {}: {} entries", zname, t.len()));
                c.check("C10.table.nonneg", t.values().all(|v| v.is_finite() && *v >= 0.0), || format!("zone {}: {:?}", zname, t));
                // H_sol;jul is the July entry (month 7) of the embedded monthly table: beam + diffuse
                {
                    let rows = crate::climatedata::MONTHLYRADDATA.lock().unwrap();
                    for o in ORIENTS.iter() {
                        let row = rows.iter().find(|r| r.zone == z && r.orientation == *o);
                        let want = row.map(|r| r.dir[6] + r.dif[6]);
                        c.check("C10.table.july_column", matches!((want, t.get(o)), (Some(w), Some(g)) if approx(*g, w, 1e-6, 1e-6)), || format!("zone {} {:?}: H_sol;jul {:?} want {:?}", zname, o, t.get(o), want));
                        if let Some(r) = row {
                            // July is not June or August (a wrong column would go unnoticed otherwise)
                            c.check("C10.table.sane", r.dir.len() == 12 && (r.dir[6] + r.dif[6] != r.dir[5] + r.dif[5] || r.dir[6] + r.dif[6] != r.dir[7] + r.dif[7]), || "July indistinguishable from June and August".to_string());
                        }
                    }
                }
                // a horizontal surface receives more July radiation than a north facade
                if let (Some(h), Some(n)) = (t.get(&Orientation::HZ), t.get(&Orientation::N)) {
                    c.check("C10.table.hz_gt_n", h > n, || format!("zone {}: HZ {} N {}", zname, h, n));
                }
                c.nontrivial(zname.to_string());
                c.sample(|| format!("{} -> {:?}", zname, t));
            }
        });
    }

    // ---- C13: posed polygons, bounding boxes, reveal surfaces --------------------------------------------
    use crate::types::HasSurface;
    use crate::verif_root::mk;
    use crate::{point, vector, Point3, WallGeom, Window};
    use super::super::raytracing::{Bounded, Intersectable, Ray, AABB};

    const POSES: [(f32, f32); 7] = [(90.0, 0.0), (90.0, 45.0), (90.0, -90.0), (0.0, 0.0), (180.0, 0.0), (30.0, 120.0), (135.0, 180.0)];

    fn polys() -> Vec<crate::Polygon> {
        vec![
            vec![point![0.0, 0.0], point![4.0, 0.0], point![4.0, 3.0], point![0.0, 3.0]],
            vec![point![0.0, 0.0], point![4.0, 0.0], point![0.0, 4.0]],
            vec![point![0.0, 0.0], point![4.0, 0.0], point![4.0, 4.0], point![2.0, 1.0], point![0.0, 4.0]],
            vec![point![1.0, 0.0], point![3.0, 0.0], point![4.0, 2.0], point![2.0, 4.0], point![0.0, 2.0]],
            // a side split by an intermediate corner, the outline starting with the three collinear corners (either winding)
            vec![point![0.0, 0.0], point![2.0, 0.0], point![4.0, 0.0], point![4.0, 3.0], point![0.0, 3.0]],
            vec![point![0.0, 0.0], point![0.0, 1.5], point![0.0, 3.0], point![4.0, 3.0], point![4.0, 0.0]],
        ]
    }

    fn inside_simple(px: f32, py: f32, poly: &[crate::Point2]) -> Option<bool> {
        // exact enough for quarter-grid points and integer polygons: f64 crossing number, None within 1 mm of the outline
        let n = poly.len();
        let (px, py) = (px as f64, py as f64);
        let mut cross = 0;
        for i in 0..n {
            let (x0, y0) = (poly[i].x as f64, poly[i].y as f64);
            let (x1, y1) = (poly[(i + 1) % n].x as f64, poly[(i + 1) % n].y as f64);
            // distance to segment
            let (dx, dy) = (x1 - x0, y1 - y0);
            let t = (((px - x0) * dx + (py - y0) * dy) / (dx * dx + dy * dy)).max(0.0).min(1.0);
            let (qx, qy) = (x0 + t * dx, y0 + t * dy);
            if ((px - qx).powi(2) + (py - qy).powi(2)).sqrt() < 1.0e-3 {
                return None;
            }
            if (y0 <= py) != (y1 <= py) {
                let xc = x0 + (py - y0) / (y1 - y0) * dx;
                if xc > px {
                    cross += 1;
                }
            }
        }
        Some(cross % 2 == 1)
    }

    #[test]
    fn n_c13_ray_posed() {
        drive("C13.ray.posed", "WallGeom::intersects for 6 polygons (two start with three collinear corners) x 7 poses (tilt, azimuth) x 2 positions; rays from 2 local origins on either side through a 6x6 quarter-grid of in-plane targets, towards / away", |c| {
            let poly = c.of(&polys());
            let (tilt, az) = c.of(&POSES);
            let pos = c.of(&[point![0.0f32, 0.0, 0.0], point![3.0f32, -2.0, 5.0]]);
            let g = WallGeom { tilt, azimuth: az, position: Some(pos), polygon: poly.clone() };
            let m = g.to_global_coords_matrix().unwrap();
            let side = c.of(&[2.5f32, -1.5]);
            let tx = -0.75 + c.pick(6) as f32;
            let ty = -0.75 + c.pick(6) as f32;
            let towards = c.flag();
            let lo = point![1.3f32, 0.7, side];
            let lt = point![tx, ty, 0.0];
            let (go, gt) = (m * lo, m * lt);
            let dir = if towards { gt - go } else { go - gt };
            c.note(format!("poly {:?} tilt {} az {} pos {:?} local origin {:?} target ({}, {}) towards {}", poly.len(), tilt, az, pos, lo, tx, ty, towards));
            let ray = Ray::new(go, dir);
            let got = g.intersects(&ray);
            if let Some(inside) = inside_simple(tx, ty, &poly) {
                let want = towards && inside;
                c.check("C13.ray.posed", got.is_some() == want, || format!("WallGeom::intersects = {:?}, exact geometry: hit = {}", got, want));
                if let Some(t) = got {
                    let d = (gt - go).norm();
                    c.check("C13.ray.posed.t", (t - d).abs() <= 1e-3 * d.max(1.0), || format!("t = {} but crossing point at {}", t, d));
                }
                if want {
                    c.nontrivial(format!("{} {} {} {:?} {} {} {}", poly.len(), tilt, az, pos, side, tx, ty));
                }
                c.sample(|| format!("tilt {} az {} target ({}, {}) towards {} -> {:?}", tilt, az, tx, ty, towards, got));
            }
            // without position there is no geometric definition: never a hit, and the box is the empty box
            let g0 = WallGeom { tilt, azimuth: az, position: None, polygon: poly.clone() };
            c.check("C13.ray.posed.no_position", g0.intersects(&ray).is_none(), || "hit on an element without position".to_string());
        });
    }

    // The occluders the sunlit-fraction calculation really uses (Model::collect_occluders) answer exactly like the
    // geometry they were made from: the bounding-box pre-filter and the cached matrices must not change any answer,
    // wherever the ray starts (inside or outside the element's bounding box).
    #[test]
    fn n_c13_occluder_equiv() {
        drive("C13.occluder", "Model::collect_occluders + impl Intersectable for &Occluder vs WallGeom::intersects: 6 polygons x 7 poses x 2 positions, as wall or shade; ray origins on both sides at distance {0.3, 2.5} (inside / outside the bounding box), 6x6 in-plane targets, towards / away", |c| {
            let poly = c.of(&polys());
            let (tilt, az) = c.of(&POSES);
            let pos = c.of(&[point![0.0f32, 0.0, 0.0], point![3.0f32, -2.0, 5.0]]);
            let as_shade = c.flag();
            let g = WallGeom { tilt, azimuth: az, position: Some(pos), polygon: poly.clone() };
            let mut m = mk::empty_model();
            m.spaces.push(mk::space(0xA0, true, ST::CONDITIONED, 1.0, 3.0));
            if as_shade {
                m.shades.push(Shade { id: mk::uid(0x31), name: "s".into(), geometry: g.clone() });
            } else {
                m.walls.push(mk::wall(1, BT::EXTERIOR, mk::uid(0xA0), None, mk::uid(0xC0), tilt, az, poly.clone(), Some(pos)));
            }
            let occ = m.collect_occluders();
            c.check("C13.occluder.collected", occ.len() == 1, || format!("{} occluders collected for one positioned element", occ.len()));
            if occ.len() != 1 {
                return;
            }
            let mat = g.to_global_coords_matrix().unwrap();
            let side = c.of(&[0.3f32, -0.3, 2.5, -1.5]);
            let tx = -0.75 + c.pick(6) as f32;
            let ty = -0.75 + c.pick(6) as f32;
            let towards = c.flag();
            let lo = point![1.3f32, 0.7, side];
            let lt = point![tx, ty, 0.0];
            let (go, gt) = (mat * lo, mat * lt);
            let ray = Ray::new(go, if towards { gt - go } else { go - gt });
            c.note(format!("poly {} tilt {} az {} pos {:?} shade {} side {} target ({}, {}) towards {}", poly.len(), tilt, az, pos, as_shade, side, tx, ty, towards));
            if inside_simple(tx, ty, &poly).is_none() {
                return; // within 1 mm of the outline
            }
            let direct = g.intersects(&ray).is_some();
            let via = (&occ[0]).intersects(&ray).is_some();
            c.check("C13.occluder.equiv", via == direct, || format!("occluder answers {} but its geometry answers {}", via, direct));
            let b = occ[0].aabb;
            let inside_box = go.x >= b.min.x && go.x <= b.max.x && go.y >= b.min.y && go.y <= b.max.y && go.z >= b.min.z && go.z <= b.max.z;
            if direct && inside_box {
                c.nontrivial(format!("{} {} {} {:?} {} {} {}", poly.len(), tilt, az, pos, side, tx, ty));
            }
            c.sample(|| format!("tilt {} az {} side {} target ({}, {}) towards {} origin inside box {} -> {}", tilt, az, side, tx, ty, towards, inside_box, via));
        });
    }

    #[test]
    fn n_c13_geom_aabb() {
        drive("C13.geom.aabb", "WallGeom::aabb for 6 polygons x 7 poses x 2 positions: contains every transformed corner and is tight", |c| {
            let poly = c.of(&polys());
            let (tilt, az) = c.of(&POSES);
            let pos = c.of(&[point![0.0f32, 0.0, 0.0], point![3.0f32, -2.0, 5.0]]);
            let g = WallGeom { tilt, azimuth: az, position: Some(pos), polygon: poly.clone() };
            let m = g.to_global_coords_matrix().unwrap();
            let b = g.aabb();
            c.note(format!("poly {} tilt {} az {} pos {:?}", poly.len(), tilt, az, pos));
            let corners: Vec<Point3> = poly.iter().map(|p| m * point![p.x, p.y, 0.0]).collect();
            let eps = 1e-4;
            for q in &corners {
                c.check("C13.geom.aabb.contains", q.x >= b.min.x - eps && q.x <= b.max.x + eps && q.y >= b.min.y - eps && q.y <= b.max.y + eps && q.z >= b.min.z - eps && q.z <= b.max.z + eps, || format!("corner {:?} outside {:?}", q, b));
            }
            let touch = |f: &dyn Fn(&Point3) -> f32, v: f32| corners.iter().any(|q| (f(q) - v).abs() <= eps);
            c.check("C13.geom.aabb.tight", touch(&|q| q.x, b.min.x) && touch(&|q| q.x, b.max.x) && touch(&|q| q.y, b.min.y) && touch(&|q| q.y, b.max.y) && touch(&|q| q.z, b.min.z) && touch(&|q| q.z, b.max.z), || format!("box {:?} not tight around {:?}", b, corners));
            let g0 = WallGeom { tilt, azimuth: az, position: None, polygon: poly.clone() };
            c.check("C13.geom.aabb.no_position", g0.aabb() == AABB::default(), || "box for an element without position".to_string());
            c.nontrivial(format!("{} {} {} {:?}", poly.len(), tilt, az, pos));
            c.sample(|| format!("tilt {} az {} -> {:?}", tilt, az, b));
        });
    }

    #[test]
    fn n_c13_setback() {
        drive("C13.setback", "Window::shades_for_setback: wall 6x3 in 7 poses x 2 positions; window 1.5 x 1.2 at (1,0.8) or (0,0); setback {0.005, 0.011, 0.02, 0.05, 0.1, 0.2, 1.0}; window position present / absent", |c| {
            let (tilt, az) = c.of(&POSES);
            let pos = c.of(&[point![0.0f32, 0.0, 0.0], point![3.0f32, -2.0, 5.0]]);
            let wpos = c.of(&[point![1.0f32, 0.8], point![0.0f32, 0.0]]);
            // below 1 cm (the tolerance of every position of the model) a setback may be ignored; from 1 cm on it is one
            let sb = c.of(&[0.005f32, 0.011, 0.02, 0.05, 0.1, 0.2, 1.0]);
            let has_pos = c.flag();
            let wall_has_pos = c.flag();
            let g = WallGeom { tilt, azimuth: az, position: if wall_has_pos { Some(pos) } else { None }, polygon: mk::rect(6.0, 3.0) };
            let (w, h) = (1.5f32, 1.2f32);
            let win = mk::window(0x11, mk::uid(1), mk::uid(0xD0), w, h, if has_pos { Some(wpos) } else { None }, sb);
            c.note(format!("tilt {} az {} pos {:?} wall_has_pos {} wpos {:?} has_pos {} setback {}", tilt, az, pos, wall_has_pos, wpos, has_pos, sb));
            let r = win.shades_for_setback(&g);
            if sb < 0.01 || !has_pos {
                c.check("C13.setback.none", matches!(&r, Some(v) if v.is_empty()), || format!("expected no reveal surfaces, got {:?}", r.as_ref().map(|v| v.len())));
                return;
            }
            if !wall_has_pos {
                c.check("C13.setback.wall_without_position", r.is_none() || r.as_ref().unwrap().is_empty(), || "reveal surfaces on a wall without position".to_string());
                return;
            }
            let shades = match r {
                Some(v) => v,
                None => {
                    c.check("C13.setback.some", false, || "None for a fully defined window".to_string());
                    return;
                }
            };
            c.check("C13.setback.four", shades.len() == 4, || format!("{} reveal surfaces", shades.len()));
            let mut ids: Vec<_> = shades.iter().map(|(_, s)| s.id).collect();
            ids.sort();
            ids.dedup();
            c.check("C13.setback.ids_distinct", ids.len() == shades.len(), || "duplicate ids".to_string());
            c.check("C13.setback.linked", shades.iter().all(|(l, _)| *l == win.id), || "reveal surface not linked to its window".to_string());
            // expected quads in world coordinates: along each window edge, from the wall plane (z=0) to the window plane (z=-setback)
            let m = g.to_global_coords_matrix().unwrap();
            let (x, y) = (wpos.x, wpos.y);
            let edges = [
                [(x, y + h), (x + w, y + h)],  // top
                [(x, y), (x, y + h)],          // left
                [(x + w, y), (x + w, y + h)],  // right
                [(x, y), (x + w, y)],          // sill
            ];
            let mut matched = [false; 4];
            for (_, s) in &shades {
                let sm = s.geometry.to_global_coords_matrix().unwrap();
                let got: Vec<Point3> = s.geometry.polygon.iter().map(|p| sm * point![p.x, p.y, 0.0]).collect();
                c.check("C13.setback.quad", got.len() == 4, || format!("{} corners", got.len()));
                for (k, e) in edges.iter().enumerate() {
                    let want = [m * point![e[0].0, e[0].1, 0.0], m * point![e[1].0, e[1].1, 0.0], m * point![e[1].0, e[1].1, -sb], m * point![e[0].0, e[0].1, -sb]];
                    let ok = want.iter().all(|q| got.iter().any(|p| (p - q).norm() <= 2e-3)) && got.iter().all(|p| want.iter().any(|q| (p - q).norm() <= 2e-3));
                    if ok {
                        matched[k] = true;
                    }
                }
            }
            let vertical = (tilt - 90.0).abs() < 1e-3;
            c.check("C13.setback.spans_gap", matched[0] && matched[3] && (!vertical || (matched[1] && matched[2])), || format!("edges covered (top, left, right, sill): {:?}", matched));
            if !vertical {
                // side reveals of windows in roofs / floors / sloped elements, reported separately
                c.check("C13.setback.fins_tilted", matched[1] && matched[2], || format!("side reveals of a window in a non-vertical element (tilt {}) do not span the gap: edges covered (top, left, right, sill): {:?}", tilt, matched));
            }
            c.nontrivial(format!("{} {} {:?} {:?} {}", tilt, az, pos, wpos, sb));
            c.sample(|| format!("tilt {} az {} setback {} -> 4 quads, edges matched {:?}", tilt, az, sb, matched));
        });
    }

    // ---- C13: slab test of the axis aligned box ---------------------------------------------------------------
    #[test]
    fn n_c13_aabb_slab() {
        drive("C13.aabb.slab", "AABB::intersects vs the exact slab test: box [1,3]x[0,2]x[-1,1]; origins on the integer grid -1..4 (z -2..2), directions with components in {-1,-0.0,+0.0,1} (non-zero), all dyadic: the arithmetic is exact", |c| {
            let b = AABB::new(point![1.0, 0.0, -1.0], point![3.0, 2.0, 1.0]);
            let o = [c.pick(6) as f32 - 1.0, c.pick(6) as f32 - 1.0, c.pick(5) as f32 - 2.0];
            // a zero component with either sign: -0.0 is what negating an axis-parallel direction gives
            const COMPONENTS: [f32; 4] = [-1.0, -0.0, 0.0, 1.0];
            let d = [COMPONENTS[c.pick(4)], COMPONENTS[c.pick(4)], COMPONENTS[c.pick(4)]];
            if d == [0.0, 0.0, 0.0] {
                return;
            }
            c.note(format!("origin {:?} dir {:?}", o, d));
            // exact slab test in f64 without normalising (scale-free)
            let lo = [1.0f64, 0.0, -1.0];
            let hi = [3.0f64, 2.0, 1.0];
            let (mut tmin, mut tmax) = (f64::NEG_INFINITY, f64::INFINITY);
            let mut miss = false;
            let mut grazing = false;
            for k in 0..3 {
                let (ok, dk) = (o[k] as f64, d[k] as f64);
                if dk == 0.0 {
                    if ok < lo[k] || ok > hi[k] {
                        miss = true;
                    }
                    if ok == lo[k] || ok == hi[k] {
                        grazing = true;
                    }
                } else {
                    let (t1, t2) = ((lo[k] - ok) / dk, (hi[k] - ok) / dk);
                    tmin = tmin.max(t1.min(t2));
                    tmax = tmax.min(t1.max(t2));
                }
            }
            let want = !miss && tmax >= 0.0 && tmin <= tmax;
            // rays sliding exactly along a face or touching only an edge/corner: either answer is acceptable
            if grazing || (!miss && tmin == tmax) {
                return;
            }
            let ray = Ray { origin: point![o[0], o[1], o[2]], dir: vector![d[0], d[1], d[2]] };
            let got = b.intersects(&ray).is_some();
            c.check("C13.aabb.slab", got == want, || format!("AABB::intersects = {} exact = {}", got, want));
            let rayn = Ray::new(point![o[0], o[1], o[2]], vector![d[0], d[1], d[2]]);
            c.check("C13.aabb.slab.normalised", b.intersects(&rayn).is_some() == want, || format!("normalised direction: {} exact = {}", b.intersects(&rayn).is_some(), want));
            if want {
                c.nontrivial(format!("{:?}{:?}", o, d));
            }
            c.sample(|| format!("origin {:?} dir {:?} -> {}", o, d, got));
        });
    }

    // ---- C12: sunlit fraction and remote obstruction factor --------------------------------------------------
    use super::super::ray_dir_to_sun;
    use crate::{BoundaryType as BT, Model, Shade, SpaceType as ST};

    /// South-facing wall 4x3 at the origin with one window; optional obstacles:
    ///  0: a big wall 3 m in front (south), 1: an overhang above the window, 2: a side fin to the east,
    ///  3: a wall behind the building (north) which can never be hit, 4: a low parapet far south (hides only very low sun),
    ///  5: an oblique screen whose bounding box contains the window
    fn c12_model(win_variant: usize, obstacles: &[bool; 6]) -> Model {
        c12_model_n(win_variant, obstacles, false)
    }

    /// `crowd`: 36 more small shades scattered around (none can hide the window) so that the acceleration structure
    /// of sunlit_fraction (leaf size 30) really splits
    fn c12_model_n(win_variant: usize, obstacles: &[bool; 6], crowd: bool) -> Model {
        let mut m = mk::empty_model();
        m.spaces.push(mk::space(0xA0, true, ST::CONDITIONED, 1.0, 3.0));
        m.cons.materials.push(mk::material(0xE0, 0.5));
        m.cons.wallcons.push(mk::wallcons(0xC0, &[(0xE0, 0.3)]));
        m.cons.glasses.push(mk::glass(0xF0));
        m.cons.frames.push(mk::frame(0xF1));
        m.cons.wincons.push(mk::wincons(0xD0, mk::uid(0xF0), mk::uid(0xF1)));
        let wall_pos = if win_variant == 4 { None } else { Some(point![0.0, 0.0, 0.0]) };
        m.walls.push(mk::wall(1, BT::EXTERIOR, mk::uid(0xA0), None, mk::uid(0xC0), 90.0, 0.0, mk::rect(4.0, 3.0), wall_pos));
        m.walls.push(mk::wall(2, BT::GROUND, mk::uid(0xA0), None, mk::uid(0xC0), 180.0, 0.0, mk::rect(4.0, 5.0), Some(point![0.0, 5.0, 0.0])));
        let (wpos, sb, wallid) = match win_variant {
            0 => (Some(point![1.0, 1.0]), 0.0, mk::uid(1)),
            1 => (Some(point![1.0, 1.0]), 0.3, mk::uid(1)),
            2 => (None, 0.0, mk::uid(1)),
            3 => (Some(point![1.0, 1.0]), 0.0, mk::uid(0x77)), // wall missing
            _ => (Some(point![1.0, 1.0]), 0.0, mk::uid(1)),    // wall without position
        };
        m.windows.push(mk::window(0x11, wallid, mk::uid(0xD0), 1.5, 1.2, wpos, sb));
        if obstacles[0] {
            // 4 km wide, 3 km high, 3 m in front: hides the window from every sun position in front of it
            m.walls.push(mk::wall(3, BT::EXTERIOR, mk::uid(0xA0), None, mk::uid(0xC0), 90.0, 180.0, mk::rect(4000.0, 3000.0), Some(point![2000.0, -3.0, -10.0])));
        }
        if obstacles[1] {
            m.shades.push(Shade { id: mk::uid(0x31), name: "overhang".into(), geometry: WallGeom { tilt: 0.0, azimuth: 0.0, position: Some(point![0.0, -1.5, 2.3]), polygon: mk::rect(4.0, 1.5) } });
        }
        if obstacles[2] {
            m.shades.push(Shade { id: mk::uid(0x32), name: "fin".into(), geometry: WallGeom { tilt: 90.0, azimuth: 90.0, position: Some(point![2.7, -2.0, 0.0]), polygon: mk::rect(2.0, 3.0) } });
        }
        if obstacles[3] {
            m.walls.push(mk::wall(4, BT::ADIABATIC, mk::uid(0xA0), None, mk::uid(0xC0), 90.0, 180.0, mk::rect(40.0, 30.0), Some(point![20.0, 9.0, 0.0])));
        }
        if obstacles[4] {
            m.shades.push(Shade { id: mk::uid(0x33), name: "parapet".into(), geometry: WallGeom { tilt: 90.0, azimuth: 0.0, position: Some(point![-10.0, -30.0, 0.0]), polygon: mk::rect(30.0, 1.0) } });
        }
        if crowd {
            for i in 0..36u128 {
                let f = i as f32;
                m.shades.push(Shade { id: mk::uid(0x100 + i), name: format!("far{}", i), geometry: WallGeom { tilt: 90.0, azimuth: 10.0 * f, position: Some(point![-30.0 + 2.0 * f, 20.0 + (i % 5) as f32 * 3.0, 0.5 * (i % 3) as f32]), polygon: mk::rect(1.0, 1.0) } });
            }
        }
        if obstacles[5] {
            // an oblique screen (30 degrees off the facade) passing 1..6 m in front: its bounding box contains the window
            m.shades.push(Shade { id: mk::uid(0x34), name: "screen".into(), geometry: WallGeom { tilt: 90.0, azimuth: 30.0, position: Some(point![-4.0, -6.0, 0.0]), polygon: mk::rect(12.0, 9.0) } });
        }
        m
    }

    #[test]
    fn n_c12_sunlit() {
        drive("C12.sunlit", "Model::sunlit_fraction: south window (normal / set back 0.3 / without position / wall missing / wall without position) x all subsets of 6 obstacles (one oblique) x sun azimuth {0,60,-60,180} x altitude {8,35,75} x with / without 36 extra shades behind the facade (more than 30 occluders); each subset is compared with every one-obstacle extension", |c| {
            let wv = c.pick(5);
            let mut obs = [false; 6];
            for k in 0..6 {
                obs[k] = c.flag();
            }
            let az = c.of(&[0.0f32, 60.0, -60.0, 180.0]);
            let alt = c.of(&[8.0f32, 35.0, 75.0]);
            let crowd = c.flag();
            c.note(format!("window variant {} obstacles {:?} sun az {} alt {} crowd {}", wv, obs, az, alt, crowd));
            let dir = ray_dir_to_sun(az, alt);
            let eval = |o: &[bool; 6]| -> f32 {
                let m = c12_model_n(wv, o, crowd);
                let w = &m.windows[0];
                let origins = m.ray_origins_for_window(w);
                let occ = m.collect_occluders();
                m.sunlit_fraction(w, &origins, &dir, &occ)
            };
            let f = eval(&obs);
            c.check("C12.sunlit.range", f >= 0.0 && f <= 1.0, || format!("sunlit fraction {}", f));
            match wv {
                // (the wall of variant 2 has a position: with the sun behind it the fraction is 0 as for any window)
                2 if az == 180.0 => c.check("C12.sunlit.behind", f == 0.0, || format!("sun behind the window but sunlit fraction {}", f)),
                2 | 3 | 4 => c.check("C12.sunlit.no_geometry", f == 1.0, || format!("sunlit fraction {} for a window / wall without geometric position (want 1)", f)),
                _ => {
                    if az == 180.0 {
                        c.check("C12.sunlit.behind", f == 0.0, || format!("sun behind the window but sunlit fraction {}", f));
                    } else if !obs[0] && !obs[1] && !obs[2] && !obs[4] && !obs[5] && wv == 0 {
                        c.check("C12.sunlit.unobstructed", f == 1.0, || format!("nothing can hide the window but sunlit fraction {}", f));
                    }
                    if obs[0] && az != 180.0 {
                        // a wall 4 km wide and 3 km high 3 m in front hides the window from these sun positions
                        c.check("C12.sunlit.hidden", f == 0.0, || format!("window fully hidden but sunlit fraction {}", f));
                    }
                }
            }
            if crowd {
                // 36 shades behind the facade: more than one leaf in the acceleration structure, same answer
                let m0 = c12_model_n(wv, &obs, false);
                let w0 = &m0.windows[0];
                let f0 = m0.sunlit_fraction(w0, &m0.ray_origins_for_window(w0), &dir, &m0.collect_occluders());
                c.check("C12.sunlit.crowd_invariant", f0 == f, || format!("36 shades that cannot hide the window change the sunlit fraction from {} to {}", f0, f));
            }
            // adding an obstacle never increases the sunlit fraction
            for k in 0..6 {
                if !obs[k] {
                    let mut o2 = obs;
                    o2[k] = true;
                    let f2 = eval(&o2);
                    c.check("C12.sunlit.monotone", !(f2 > f), || format!("adding obstacle {} raised the sunlit fraction from {} to {}", k, f, f2));
                }
            }
            if f > 0.0 && f < 1.0 {
                c.nontrivial(format!("{} {:?} {} {}", wv, obs, az, alt));
            }
            c.sample(|| format!("variant {} obstacles {:?} az {} alt {} -> {}", wv, obs, az, alt, f));
        });
    }

    /// the whole scene turned about the vertical axis: every position, every azimuth (degrees, counter-clockwise)
    fn turn_scene(m: &mut Model, deg: f32) {
        let r = nalgebra::Rotation3::from_euler_angles(0.0, 0.0, deg.to_radians());
        for w in m.walls.iter_mut() {
            w.geometry.azimuth += deg;
            w.geometry.position = w.geometry.position.map(|p| r * p);
        }
        for s in m.shades.iter_mut() {
            s.geometry.azimuth += deg;
            s.geometry.position = s.geometry.position.map(|p| r * p);
        }
    }

    // C12: the sunlit fraction is a property of the scene, not of its orientation: turning building, obstacles and sun
    // together by any angle leaves it unchanged (the facade is then oblique to the axes). One of the obstacles is a
    // long fin perpendicular to the facade that runs from 6 m behind its plane to 2 m in front of it.
    #[test]
    fn n_c12_turned_scene() {
        drive("C12.turned", "Model::sunlit_fraction on the C12 scene (window normal / set back 0.3) x all subsets of 6 obstacles + a long fin crossing the facade plane, turned with the sun by {30, 45, 100, -135} degrees about the vertical axis: same fraction as the unturned scene (within one sample point of 25)", |c| {
            let wv = c.pick(2);
            let mut obs = [false; 6];
            for k in 0..6 {
                obs[k] = c.flag();
            }
            let long_fin = c.flag();
            let az = c.of(&[0.0f32, 60.0, -60.0]);
            let alt = c.of(&[8.0f32, 35.0, 75.0]);
            let turn = c.of(&[30.0f32, 45.0, 100.0, -135.0]);
            c.note(format!("window variant {} obstacles {:?} long fin {} sun az {} alt {} turned by {}", wv, obs, long_fin, az, alt, turn));
            let build = |deg: f32| -> f32 {
                let mut m = c12_model_n(wv, &obs, false);
                if long_fin {
                    m.shades.push(Shade { id: mk::uid(0x35), name: "long fin".into(), geometry: WallGeom { tilt: 90.0, azimuth: 90.0, position: Some(point![2.7, -2.0, 0.0]), polygon: mk::rect(8.0, 3.0) } });
                }
                turn_scene(&mut m, deg);
                let dir = nalgebra::Rotation3::from_euler_angles(0.0, 0.0, deg.to_radians()) * ray_dir_to_sun(az, alt);
                let w = &m.windows[0];
                let origins = m.ray_origins_for_window(w);
                let occ = m.collect_occluders();
                m.sunlit_fraction(w, &origins, &dir, &occ)
            };
            let (f0, f1) = (build(0.0), build(turn));
            c.check("C12.turned.same_fraction", (f0 - f1).abs() <= 0.0401, || format!("sunlit fraction {} in the scene as built, {} after turning everything by {} degrees", f0, f1, turn));
            if long_fin && f0 < 1.0 {
                c.nontrivial(format!("{} {:?} {} {} {}", wv, obs, az, alt, turn));
            }
            c.sample(|| format!("variant {} obstacles {:?} long fin {} az {} alt {} turn {} -> {} / {}", wv, obs, long_fin, az, alt, turn, f0, f1));
        });
    }

    // C12: the window's sample points: a regular grid of cell centres covering the window, on the window plane
    #[test]
    fn n_c12_ray_origins() {
        drive("C12.ray_origins", "Model::ray_origins_for_window: wall in 7 poses x 2 positions x 3 polygon descriptions (origin / translated / starting on another corner); window (x,y,w,h) in {(1,0.8,1.5,1.2),(0,0,3,0.6),(2.5,1,0.4,1.6)} x setback {0,0.25}", |c| {
            let (tilt, az) = c.of(&POSES);
            let pos = c.of(&[point![0.0f32, 0.0, 0.0], point![3.0f32, -2.0, 5.0]]);
            let (wx, wy, ww, wh) = c.of(&[(1.0f32, 0.8f32, 1.5f32, 1.2f32), (0.0, 0.0, 3.0, 0.6), (2.5, 1.0, 0.4, 1.6)]);
            let sb = c.of(&[0.0f32, 0.25]);
            // the window position is measured from the wall polygon's first vertex along its first edge:
            // polygons that start at the origin along +x, that are translated, and that start on another corner
            let wall_poly: crate::Polygon = c.of(&[
                mk::rect(6.0, 3.0),
                vec![point![1.0, 0.5], point![7.0, 0.5], point![7.0, 3.5], point![1.0, 3.5]],
                vec![point![6.0, 0.0], point![6.0, 6.0], point![0.0, 6.0], point![0.0, 0.0]],
            ]);
            c.note(format!("tilt {} az {} pos {:?} window ({}, {}) {}x{} setback {} wall polygon starts at {:?} towards {:?}", tilt, az, pos, wx, wy, ww, wh, sb, wall_poly[0], wall_poly[1]));
            let mut m = mk::empty_model();
            m.walls.push(mk::wall(1, BT::EXTERIOR, mk::uid(0xA0), None, mk::uid(0xC0), tilt, az, wall_poly.clone(), Some(pos)));
            m.windows.push(mk::window(0x11, mk::uid(1), mk::uid(0xD0), ww, wh, Some(point![wx, wy]), sb));
            let pts = m.ray_origins_for_window(&m.windows[0]);
            c.check("C12.ray_origins.count", pts.len() >= 25 && pts.len() <= 100, || format!("{} sample points", pts.len()));
            if pts.is_empty() {
                return;
            }
            let inv = m.walls[0].geometry.to_global_coords_matrix().unwrap().inverse();
            // polygon coordinates -> coordinates relative to the first vertex / first edge of the wall polygon
            let (v0, e) = (wall_poly[0], wall_poly[1] - wall_poly[0]);
            let th = e.y.atan2(e.x);
            let loc: Vec<Point3> = pts
                .iter()
                .map(|p| inv * p)
                .map(|p| {
                    let (dx, dy) = (p.x - v0.x, p.y - v0.y);
                    point![dx * th.cos() + dy * th.sin(), -dx * th.sin() + dy * th.cos(), p.z]
                })
                .collect();
            let eps = 2e-3;
            c.check("C12.ray_origins.on_window_plane", loc.iter().all(|p| (p.z + sb).abs() <= eps), || format!("local z of the sample points {:?}, window plane at {}", loc.iter().map(|p| p.z).fold(f32::NAN, f32::max), -sb));
            c.check("C12.ray_origins.inside_window", loc.iter().all(|p| p.x >= wx - eps && p.x <= wx + ww + eps && p.y >= wy - eps && p.y <= wy + wh + eps), || format!("sample points outside the window rectangle: x in [{}, {}], y in [{}, {}]", loc.iter().map(|p| p.x).fold(f32::INFINITY, f32::min), loc.iter().map(|p| p.x).fold(f32::NEG_INFINITY, f32::max), loc.iter().map(|p| p.y).fold(f32::INFINITY, f32::min), loc.iter().map(|p| p.y).fold(f32::NEG_INFINITY, f32::max)));
            let n = loc.len() as f32;
            let (mx, my) = (loc.iter().map(|p| p.x).sum::<f32>() / n, loc.iter().map(|p| p.y).sum::<f32>() / n);
            c.check("C12.ray_origins.centred", (mx - (wx + ww / 2.0)).abs() <= 2e-3 && (my - (wy + wh / 2.0)).abs() <= 2e-3, || format!("mean of the sample points ({}, {}) but the window centre is ({}, {})", mx, my, wx + ww / 2.0, wy + wh / 2.0));
            // cell centres: the extreme points are half a cell away from the window edges, the same on both sides
            let (x0, x1) = (loc.iter().map(|p| p.x).fold(f32::INFINITY, f32::min), loc.iter().map(|p| p.x).fold(f32::NEG_INFINITY, f32::max));
            let (y0, y1) = (loc.iter().map(|p| p.y).fold(f32::INFINITY, f32::min), loc.iter().map(|p| p.y).fold(f32::NEG_INFINITY, f32::max));
            c.check("C12.ray_origins.symmetric_margins", ((x0 - wx) - (wx + ww - x1)).abs() <= 2e-3 && ((y0 - wy) - (wy + wh - y1)).abs() <= 2e-3 && x0 - wx > 0.0 && x0 - wx <= ww / 10.0 + 2e-3 && y0 - wy > 0.0 && y0 - wy <= wh / 10.0 + 2e-3, || format!("margins x {} / {} y {} / {}", x0 - wx, wx + ww - x1, y0 - wy, wy + wh - y1));
            c.nontrivial(format!("{} {} {:?} {} {} {}", tilt, az, pos, wx, ww, sb));
            c.sample(|| format!("tilt {} az {} window ({}, {}) {}x{} -> {} points", tilt, az, wx, wy, ww, wh, pts.len()));
        });
    }

    // C12: which elements can hide a window: exterior and adiabatic walls and shades that have a position and a polygon
    #[test]
    fn n_c12_occluder_set() {
        drive("C12.occluder_set", "Model::collect_occluders: 2 walls each over 4 boundary kinds x positioned / not x polygon / empty; 2 shades each positioned / not; 1 set-back window on wall 0", |c| {
            let mut m = mk::empty_model();
            let mut want: Vec<Uuid> = vec![];
            let mut desc = vec![];
            for i in 0..2u128 {
                let b = c.of(&BOUNDS);
                let has_pos = c.flag();
                let has_poly = c.flag();
                let poly = if has_poly { mk::rect(4.0, 3.0) } else { vec![] };
                m.walls.push(mk::wall(1 + i, b, mk::uid(0xA0), None, mk::uid(0xC0), 90.0, 90.0 * i as f32, poly, if has_pos { Some(point![5.0 * i as f32, 0.0, 0.0]) } else { None }));
                if (b == BT::EXTERIOR || b == BT::ADIABATIC) && has_pos && has_poly {
                    want.push(mk::uid(1 + i));
                }
                desc.push(format!("wall{} {:?} pos={} poly={}", i, b, has_pos, has_poly));
            }
            for i in 0..2u128 {
                let has_pos = c.flag();
                m.shades.push(Shade { id: mk::uid(0x31 + i), name: format!("s{}", i), geometry: WallGeom { tilt: 0.0, azimuth: 0.0, position: if has_pos { Some(point![0.0, -1.0, 3.0 + i as f32]) } else { None }, polygon: mk::rect(4.0, 1.0) } });
                if has_pos {
                    want.push(mk::uid(0x31 + i));
                }
                desc.push(format!("shade{} pos={}", i, has_pos));
            }
            m.windows.push(mk::window(0x11, mk::uid(1), mk::uid(0xD0), 1.0, 1.0, Some(point![1.0, 1.0]), 0.3));
            c.note(desc.join(" | "));
            let occ = m.collect_occluders();
            let mut got: Vec<Uuid> = occ.iter().filter(|o| o.linked_to_id.is_none()).map(|o| o.id).collect();
            got.sort();
            want.sort();
            c.check("C12.occluder_set.members", got == want, || format!("occluders {:?} want {:?}", got.iter().map(|u| u.as_u128()).collect::<Vec<_>>(), want.iter().map(|u| u.as_u128()).collect::<Vec<_>>()));
            // reveal surfaces exist exactly when the window's wall has a position, and are linked to the window
            let reveals: Vec<_> = occ.iter().filter(|o| o.linked_to_id.is_some()).collect();
            let wall0_pos = m.walls[0].geometry.position.is_some();
            c.check("C12.occluder_set.reveals", reveals.len() == if wall0_pos { 4 } else { 0 } && reveals.iter().all(|o| o.linked_to_id == Some(mk::uid(0x11))), || format!("{} reveal occluders, wall positioned: {}", reveals.len(), wall0_pos));
            if !want.is_empty() {
                c.nontrivial(desc.join("|"));
            }
            c.sample(|| format!("{} -> {} occluders", desc.join(" | "), occ.len()));
        });
    }

    // C12: an unobstructed window on any orientation / tilt: the factor is the hour-by-hour mean with the sunlit fraction
    // 1 in front of the window and 0 behind it
    #[test]
    fn n_c12_unobstructed_orientations() {
        drive("C12.fshobst.orientations", "Model::compute_fshobst, single wall with one window and nothing else: wall azimuth {0,90,-90,180,45,-135} x tilt {90,60,0} x zone {D3,A3c,E1}", |c| {
            use crate::climatedata::{ClimateZone, CLIMATEMETADATA, JULYRADDATA};
            let az = c.of(&[0.0f32, 90.0, -90.0, 180.0, 45.0, -135.0]);
            let tilt = c.of(&[90.0f32, 60.0, 0.0]);
            let zone = c.of(&[ClimateZone::D3, ClimateZone::A3c, ClimateZone::E1]);
            c.note(format!("wall azimuth {} tilt {} zone {}", az, tilt, zone));
            let mut m = mk::empty_model();
            m.meta.climate = zone;
            m.walls.push(mk::wall(1, BT::EXTERIOR, mk::uid(0xA0), None, mk::uid(0xC0), tilt, az, mk::rect(4.0, 3.0), Some(point![0.0, 0.0, 0.0])));
            m.windows.push(mk::window(0x11, mk::uid(1), mk::uid(0xD0), 1.5, 1.2, Some(point![1.0, 1.0]), 0.0));
            let f = m.compute_fshobst().get(&mk::uid(0x11)).copied();
            // outward normal under the tilt / azimuth convention (tilt 0 faces up, azimuth S = 0, E = +90)
            let (t, a) = ((tilt as f64).to_radians(), (az as f64).to_radians());
            let n = (t.sin() * a.sin(), -t.sin() * a.cos(), t.cos());
            let lat = CLIMATEMETADATA.lock().unwrap().get(&zone).unwrap().latitude;
            let data = JULYRADDATA.lock().unwrap().get(&zone).unwrap().clone();
            let (mut sum, mut nh) = (0.0f64, 0usize);
            for d in &data {
                let r = climate::radiation_for_surface(climate::nday_from_md(d.month, d.day), d.hour, climate::SolarRadiation { dir: d.dir, dif: d.dif }, lat, tilt, az, 0.2);
                let (sa, al) = ((d.azimuth as f64).to_radians(), (d.altitude as f64).to_radians());
                let sun = (al.cos() * sa.sin(), -al.cos() * sa.cos(), al.sin());
                let front = if n.0 * sun.0 + n.1 * sun.1 + n.2 * sun.2 < 0.01 { 0.0 } else { 1.0 };
                sum += ((front * r.dir + r.dif) / (r.dir + r.dif)) as f64;
                nh += 1;
            }
            let want = sum / nh as f64;
            c.check("C12.fshobst.orientations.formula", matches!(f, Some(f) if (f as f64 - want).abs() <= 0.0051 + 1e-4), || format!("F_sh,obst = {:?} but the hour-by-hour mean over {} hours is {}", f, nh, want));
            c.check("C12.fshobst.orientations.unobstructed", matches!(f, Some(f) if f >= 0.97 && f <= 1.0), || format!("nothing can hide the window but F_sh,obst = {:?}", f));
            c.nontrivial(format!("{} {} {}", az, tilt, zone));
            c.sample(|| format!("azimuth {} tilt {} zone {} -> {:?} (mean {})", az, tilt, zone, f, want));
        });
    }

    // the reveal surfaces of a set-back window shade THAT window only
    #[test]
    fn n_c12_reveals() {
        drive("C12.reveals", "Model::sunlit_fraction with two set-back windows A, B on one south wall (setback {0.3, 0.8}) x sun azimuth {-80,-60,0,60,80} x altitude {8,35}: A with B present == A alone; own reveals hide part of A under grazing sun; set-back never raises the fraction", |c| {
            let sb = c.of(&[0.3f32, 0.8]);
            let az = c.of(&[-80.0f32, -60.0, 0.0, 60.0, 80.0]);
            let alt = c.of(&[8.0f32, 35.0]);
            c.note(format!("setback {} sun az {} alt {}", sb, az, alt));
            let build = |with_b: bool, sb_a: f32| -> Model {
                let mut m = mk::empty_model();
                m.spaces.push(mk::space(0xA0, true, ST::CONDITIONED, 1.0, 3.0));
                m.walls.push(mk::wall(1, BT::EXTERIOR, mk::uid(0xA0), None, mk::uid(0xC0), 90.0, 0.0, mk::rect(6.0, 3.0), Some(point![0.0, 0.0, 0.0])));
                m.windows.push(mk::window(0x11, mk::uid(1), mk::uid(0xD0), 1.0, 1.0, Some(point![1.0, 1.0]), sb_a));
                if with_b {
                    m.windows.push(mk::window(0x12, mk::uid(1), mk::uid(0xD0), 1.0, 1.0, Some(point![3.0, 1.0]), sb));
                }
                m
            };
            let dir = ray_dir_to_sun(az, alt);
            let f = |m: &Model| -> f32 {
                let w = &m.windows[0];
                m.sunlit_fraction(w, &m.ray_origins_for_window(w), &dir, &m.collect_occluders())
            };
            let both = f(&build(true, sb));
            let alone = f(&build(false, sb));
            let flush = f(&build(true, 0.0));
            c.check("C12.reveals.only_own", both == alone, || format!("window A: sunlit {} with window B present, {} alone", both, alone));
            c.check("C12.reveals.never_raise", both <= flush, || format!("set back {}: sunlit {} but flush window {}", sb, both, flush));
            c.check("C12.reveals.range", (0.0..=1.0).contains(&both), || format!("sunlit {}", both));
            if az.abs() >= 60.0 {
                // grazing sun: the side reveal hides a strip of width setback * tan(az) (capped by the window)
                c.check("C12.reveals.own_reveals_shade", both < 0.95, || format!("grazing sun (az {}), setback {}: sunlit {} - the window's own reveals shade nothing", az, sb, both));
            }
            if both < 1.0 {
                c.nontrivial(format!("{} {} {}", sb, az, alt));
            }
            c.sample(|| format!("setback {} az {} alt {} -> with B {} alone {} flush {}", sb, az, alt, both, alone, flush));
        });
    }

    #[test]
    fn n_c12_fshobst() {
        drive("C12.fshobst", "Model::compute_fshobst on the same models (window normal / set back) x all subsets of 6 obstacles (one oblique) x climate zone {D3, A3c}: range, unobstructed >= 0.97, monotone in the obstacle set", |c| {
            use crate::climatedata::ClimateZone;
            let wv = c.pick(2);
            let mut obs = [false; 6];
            for k in 0..6 {
                obs[k] = c.flag();
            }
            let zone = c.of(&[ClimateZone::D3, ClimateZone::A3c]);
            c.note(format!("window variant {} obstacles {:?} zone {}", wv, obs, zone));
            let eval = |o: &[bool; 6]| -> Option<f32> {
                let mut m = c12_model(wv, o);
                m.meta.climate = zone;
                m.compute_fshobst().get(&mk::uid(0x11)).copied()
            };
            let f = eval(&obs);
            c.check("C12.fshobst.present", f.is_some(), || "no factor computed for the window".to_string());
            let f = f.unwrap_or(f32::NAN);
            c.check("C12.fshobst.range", f >= 0.0 && f <= 1.0, || format!("F_sh,obst = {}", f));
            if wv == 0 && !obs[0] && !obs[1] && !obs[2] && !obs[4] && !obs[5] {
                c.check("C12.fshobst.unobstructed", f >= 0.97, || format!("nothing can hide the window but F_sh,obst = {}", f));
            }
            // independent oracle for the two extreme cases: mean over the July design-day hours of
            // (sunlit * beam + diffuse) / (beam + diffuse) on the window plane
            {
                use crate::climatedata::{CLIMATEMETADATA, JULYRADDATA};
                let lat = CLIMATEMETADATA.lock().unwrap().get(&zone).unwrap().latitude;
                let data = JULYRADDATA.lock().unwrap().get(&zone).unwrap().clone();
                let normal = vector![0.0f32, -1.0, 0.0];
                let (mut sum_unob, mut sum_hidden, mut nh) = (0.0f64, 0.0f64, 0usize);
                for d in &data {
                    let r = climate::radiation_for_surface(climate::nday_from_md(d.month, d.day), d.hour, climate::SolarRadiation { dir: d.dir, dif: d.dif }, lat, 90.0, 0.0, 0.2);
                    let front = if normal.dot(&ray_dir_to_sun(d.azimuth, d.altitude)) < 0.01 { 0.0 } else { 1.0 };
                    sum_unob += ((front * r.dir + r.dif) / (r.dir + r.dif)) as f64;
                    sum_hidden += (r.dif / (r.dir + r.dif)) as f64;
                    nh += 1;
                }
                c.check("C12.fshobst.hours", nh >= 12, || format!("{} July design-day hours", nh));
                if wv == 0 && !obs[0] && !obs[1] && !obs[2] && !obs[4] && !obs[5] {
                    c.check("C12.fshobst.formula.unobstructed", (f as f64 - sum_unob / nh as f64).abs() <= 0.0051 + 1e-4, || format!("F_sh,obst = {} but the mean over {} hours is {}", f, nh, sum_unob / nh as f64));
                }
                if obs[0] {
                    c.check("C12.fshobst.formula.hidden", (f as f64 - sum_hidden / nh as f64).abs() <= 0.0051 + 1e-4, || format!("hidden at every hour: F_sh,obst = {} but the diffuse share is {}", f, sum_hidden / nh as f64));
                }
            }
            for k in 0..6 {
                if !obs[k] {
                    let mut o2 = obs;
                    o2[k] = true;
                    let f2 = eval(&o2).unwrap_or(f32::NAN);
                    c.check("C12.fshobst.monotone", !(f2 > f), || format!("adding obstacle {} raised F_sh,obst from {} to {}", k, f, f2));
                }
            }
            if f < 1.0 {
                c.nontrivial(format!("{} {:?} {}", wv, obs, zone));
            }
            c.sample(|| format!("variant {} obstacles {:?} zone {} -> {}", wv, obs, zone, f));
        });
    }

    // ---- C20: embedded climate tables and zone names (finite domains, enumerated completely) ------------------
    #[test]
    fn n_c20_tables() {
        use crate::climatedata::{ClimateZone, CLIMATEMETADATA, JULYRADDATA, MONTHLYRADDATA};
        use std::convert::TryFrom;
        drive("C20.tables", "all 32 climate zones: name <-> zone round trip, metadata entry, 9 monthly rows with 12 non-negative values, July design-day rows (non-negative, altitude in [0,90], azimuth in [-180,180])", |c| {
            let zi = c.pick(climate::CTE_CLIMATEZONES.len());
            let zname = climate::CTE_CLIMATEZONES[zi];
            c.note(format!("zone {}", zname));
            let zone = match ClimateZone::try_from(zname) {
                Ok(z) => z,
                Err(_) => {
                    c.check("C20.zone.parses", false, || format!("zone name {} is not recognised", zname));
                    return;
                }
            };
            c.check("C20.zone.round_trip", zone.to_string() == zname, || format!("{} prints as {}", zname, zone));
            c.check("C20.zone.unknown_rejected", ClimateZone::try_from(format!("{}x", zname).as_str()).is_err() && ClimateZone::try_from("").is_err(), || "unknown zone name accepted".to_string());
            let meta = CLIMATEMETADATA.lock().unwrap().get(&zone).cloned();
            c.check("C20.tables.meta", matches!(&meta, Some(mi) if mi.zc == zone && mi.latitude > 27.0 && mi.latitude < 44.0), || format!("metadata {:?}", meta));
            let rows: Vec<_> = MONTHLYRADDATA.lock().unwrap().iter().filter(|r| r.zone == zone).cloned().collect();
            c.check("C20.tables.monthly.rows", rows.len() == 9 && ORIENTS.iter().all(|o| rows.iter().filter(|r| r.orientation == *o).count() == 1), || format!("{} monthly rows", rows.len()));
            c.check("C20.tables.monthly.values", rows.iter().all(|r| r.dir.len() == 12 && r.dif.len() == 12 && r.dir.iter().chain(r.dif.iter()).all(|v| v.is_finite() && *v >= 0.0)), || "monthly row with wrong length or negative value".to_string());
            let july = JULYRADDATA.lock().unwrap().get(&zone).cloned();
            match july {
                None => c.check("C20.tables.july.exists", false, || "no July design-day data".to_string()),
                Some(rows) => {
                    c.check("C20.tables.july.hours", rows.len() >= 12 && rows.len() <= 16, || format!("{} July hours", rows.len()));
                    c.check("C20.tables.july.values", rows.iter().all(|r| r.dir >= 0.0 && r.dif >= 0.0 && r.altitude >= 0.0 && r.altitude <= 90.0 && r.azimuth >= -180.0 && r.azimuth <= 180.0 && r.month == 7 && r.hour > 0.0 && r.hour < 24.0), || "July row out of range".to_string());
                    // the day-of-year used for the design day exists (31 is a valid day)
                    c.check("C20.tables.july.nday", rows.iter().all(|r| { let n = climate::nday_from_md(r.month, r.day); n >= 182 && n <= 212 }), || "July design day outside July".to_string());
                }
            }
            c.nontrivial(zname.to_string());
            c.sample(|| format!("{}: lat {:?}", zname, meta.as_ref().map(|m| m.latitude)));
        });
    }

    // C20: for the zone whose weather file is shipped (D3) the embedded monthly table equals what the radiation model
    // computes from that file, to table precision; every hour is computed with the calendar day number of its date
    #[test]
    fn n_c20_weather_table() {
        let met = climate::met::parsemet(include_str!(concat!(env!("CARGO_MANIFEST_DIR"), "/../climate/src/zonaD3.met"))).expect("weather file parses");
        // the generator of the embedded tables itself (met_monthly_data wants every zone: each gets the D3 file, only the D3
        // rows are compared)
        let generated: Vec<climate::met::MonthlySurfaceRadData> = {
            let met2 = climate::met::parsemet(include_str!(concat!(env!("CARGO_MANIFEST_DIR"), "/../climate/src/zonaD3.met")));
            match met2 {
                Ok(_) => {
                    let mut all = std::collections::HashMap::new();
                    for z in climate::CTE_CLIMATEZONES.iter() {
                        all.insert(z.to_string(), climate::met::parsemet(include_str!(concat!(env!("CARGO_MANIFEST_DIR"), "/../climate/src/zonaD3.met"))).unwrap());
                    }
                    std::panic::catch_unwind(|| climate::met::met_monthly_data(&all)).unwrap_or_default()
                }
                Err(_) => vec![],
            }
        };
        drive("C20.weather_table", "climate/src/zonaD3.met (8760 hours): 9 orientation classes x 12 months: monthly beam / diffuse sums of period_radiation_for_surface, and the rows met_monthly_data generates, vs MONTHLYRADDATA (zone D3); hour-by-hour day-number consistency", |c| {
            use crate::climatedata::{ClimateZone, MONTHLYRADDATA};
            let k = c.pick(climate::ORIENTATIONS.len());
            let (tilt, az, name) = climate::ORIENTATIONS[k];
            c.note(format!("orientation {} (tilt {}, azimuth {})", name, tilt, az));
            c.check("C20.weather.hours", met.data.len() == 8760, || format!("{} hours in the weather file", met.data.len()));
            let rows = climate::period_radiation_for_surface(&met.data, met.meta.latitude, tilt, az, 0.2);
            // hour by hour: the calendar day number of the date is what the model must use
            let mut bad = 0;
            let mut first = String::new();
            for (d, r) in met.data.iter().zip(rows.iter()) {
                let want = climate::radiation_for_surface(climate::nday_from_md(d.month, d.day), d.hour, climate::SolarRadiation { dir: d.rdirhor, dif: d.rdifhor }, met.meta.latitude, tilt, az, 0.2);
                if !(approx(r.dir, want.dir, 1e-5, 1e-4) && approx(r.dif, want.dif, 1e-5, 1e-4)) {
                    bad += 1;
                    if first.is_empty() {
                        first = format!("month {} day {} hour {}: {:?} want {:?}", d.month, d.day, d.hour, (r.dir, r.dif), (want.dir, want.dif));
                    }
                }
            }
            c.check("C20.weather.day_number", bad == 0, || format!("{} of 8760 hours differ; first: {}", bad, first));
            let orient = Orientation::from(name);
            let table = MONTHLYRADDATA.lock().unwrap().iter().find(|r| r.zone == ClimateZone::D3 && r.orientation == orient).cloned();
            match table {
                None => c.check("C20.weather.table_row", false, || format!("no D3 row for {}", name)),
                Some(t) => {
                    // what the generator of the tables gives for this class from the same file
                    match generated.iter().find(|g| g.zc == "D3" && g.name == name) {
                        None => c.check("C20.weather.generator", false, || format!("met_monthly_data gives no D3 row for {}", name)),
                        Some(g) => {
                            c.check("C20.weather.generator", g.tilt == tilt && g.azimuth == az && g.dir.len() == 12 && g.dif.len() == 12 && (0..12).all(|i| (g.dir[i] - t.dir[i]).abs() <= 0.0075 && (g.dif[i] - t.dif[i]).abs() <= 0.0075), || format!("{}: met_monthly_data (tilt {}, azimuth {}) gives beam {:?} diffuse {:?}; the table has {:?} / {:?}", name, g.tilt, g.azimuth, g.dir, g.dif, t.dir, t.dif));
                        }
                    }
                    for m in 1..=12u32 {
                        let dir: f32 = rows.iter().filter(|r| r.month == m).map(|r| r.dir).sum::<f32>() / 1000.0;
                        let dif: f32 = rows.iter().filter(|r| r.month == m).map(|r| r.dif).sum::<f32>() / 1000.0;
                        let (td, tf) = (t.dir[(m - 1) as usize], t.dif[(m - 1) as usize]);
                        c.check("C20.weather.table", (dir - td).abs() <= 0.0075 && (dif - tf).abs() <= 0.0075, || format!("{} month {}: model {:.3} / {:.3} table {} / {}", name, m, dir, dif, td, tf));
                    }
                }
            }
            c.nontrivial(name.to_string());
            c.sample(|| format!("{}: {} hourly rows", name, rows.len()));
        });
    }
}
