// Contracts for hulc/src/bdl (block parser, typed elements) and hulc/src/kyg.rs: C18.
// This file is NOT part of /repo: the injector appends `#[path = ...] mod verif_hulc_bdl;` to a scratch copy of bdl/mod.rs.
#![allow(dead_code, unused_imports, non_snake_case, clippy::all)]

/// Hash of every source file of the scratch copy (see engine/common.py): makes cargo rebuild this crate whenever any source changed.
pub const VERIF_SRC_HASH: Option<&str> = option_env!("VERIF_SRC_HASH");

#[cfg(verif_native)]
#[path = "support.rs"]
mod support;

#[cfg(verif_native)]
mod n {
    use super::super::*;
    use super::support::*;
    use std::path::{Path, PathBuf};

    // ------------------------------------------------------------------------------------------------------------
    // Abstract description of a BDL document, its printer (layout options) and the oracle for build_blocks
    // ------------------------------------------------------------------------------------------------------------
    #[derive(Clone, Debug)]
    enum Val {
        Num(f32),
        Word(String),
        Text(String),
        Names(Vec<String>),
        Nums(Vec<f32>),
    }

    #[derive(Clone, Debug)]
    struct Block {
        kind: &'static str,
        name: String,
        attrs: Vec<(String, Val)>,
    }

    #[derive(Clone, Copy, Debug)]
    struct Layout {
        crlf: bool,
        noise: bool,     // blank lines and $ comments between blocks and between attributes
        spacing: usize,  // 0: HULC style, 1: tabs and trailing blanks, 2: no indentation, one trailing blank
        reversed: bool,  // attribute order
        numfmt: usize,   // 0: shortest, 1: six decimals, 2: exponent, 3: C-style exponent (1.5E+03)
        quote_words: bool,
        lists: usize,    // 0: one line, 1: one element per line with ')' after the last, 2: ')' on its own line
        preamble: bool,  // legacy LIDER preamble before the first block
    }

    struct Lcg(u64);
    impl Lcg {
        fn next(&mut self, n: usize) -> usize {
            self.0 = self.0.wrapping_mul(6364136223846793005).wrapping_add(1442695040888963407);
            ((self.0 >> 33) as usize) % n.max(1)
        }
    }

    const KINDS: [&str; 28] = [
        "FLOOR", "SPACE", "EXTERIOR-WALL", "WINDOW", "INTERIOR-WALL", "ROOF", "UNDERGROUND-WALL", "UNDERGROUND-FLOOR", "DOOR", "CONSTRUCTION", "MATERIAL",
        "LAYERS", "GLASS-TYPE", "NAME-FRAME", "GAP", "POLYGON", "THERMAL-BRIDGE", "BUILDING-SHADE", "DAY-SCHEDULE-PD", "WEEK-SCHEDULE-PD", "SCHEDULE-PD",
        "SPACE-CONDITIONS", "SYSTEM-CONDITIONS", "BUILD-PARAMETERS", "WORK-SPACE", "ZONE", "SYSTEM", "PUMP",
    ];
    const KEYS: [&str; 16] = ["X", "Y", "Z", "HEIGHT", "WIDTH", "AZIMUTH", "TILT", "TYPE", "CONSTRUCTION", "NEXT-TO", "POLYGON", "AREA/PERSON", "MATERIAL", "THICKNESS", "NAME_CALENER", "C-C-HEAT-SOURCE"];
    const WORDS: [&str; 8] = ["CONDITIONED", "UNHABITED", "YES", "NO", "SPACE-V1", "TOP", "Ninguno", "AIR-CHANGE"];
    const NAMES: [&str; 10] = ["P01_E01", "Muro exterior", "Forjado interior", "P01_E01_PE001", "Vidrio doble 4-12-4", "PVC dos cámaras", "Mortero de cemento, 1000 < d < 1250", "Defecto", "HA18_SS_D-Resid", "P02_E03_FI002"];
    // exactly representable with at most six decimals: every number format prints them without loss
    const NUMS: [f32; 12] = [0.0, 1.0, -1.5, 0.25, 180.0, 0.015625, 2.5, 1000.0, -0.125, 90.0, 3.75, 12345.5];

    fn describe(seed: usize) -> Vec<Block> {
        let mut r = Lcg(seed as u64 * 7919 + 13);
        let n = 1 + r.next(40);
        let mut blocks = vec![];
        for i in 0..n {
            let kind = KINDS[r.next(KINDS.len())];
            let name = format!("{}_{}", NAMES[r.next(NAMES.len())].replace(", ", " ").replace('<', "lt"), i);
            let mut attrs: Vec<(String, Val)> = vec![];
            // a named block always carries attributes in the files HULC / LIDER write
            let na = 1 + r.next(6);
            for _ in 0..na {
                let key = KEYS[r.next(KEYS.len())].to_string();
                if attrs.iter().any(|a| a.0 == key) {
                    continue;
                }
                let v = match r.next(5) {
                    0 => Val::Num(NUMS[r.next(NUMS.len())]),
                    1 => Val::Word(WORDS[r.next(WORDS.len())].to_string()),
                    2 => Val::Text(NAMES[r.next(NAMES.len())].to_string()),
                    3 => Val::Names((0..1 + r.next(4)).map(|_| NAMES[r.next(NAMES.len())].to_string()).collect()),
                    _ => Val::Nums((0..1 + r.next(5)).map(|_| NUMS[r.next(NUMS.len())]).collect()),
                };
                attrs.push((key, v));
            }
            blocks.push(Block { kind, name, attrs });
        }
        blocks
    }

    /// `1.5E+03` / `2.5E-01`: the exponent form C and Fortran programs print
    fn c_exponent(v: f32) -> String {
        let s = format!("{:E}", v);
        let (m, e) = s.split_once('E').unwrap_or((&s, "0"));
        let e: i32 = e.parse().unwrap_or(0);
        format!("{}{}E{}{:02}", m, if m.contains('.') { "" } else { ".0" }, if e < 0 { '-' } else { '+' }, e.abs())
    }

    // (an explicit `+1.5` is not a format of this syntax: HULC never writes it, and a line that starts with `+` is a
    // legacy LIDER header that clean_lines drops)
    fn fmt_num(v: f32, numfmt: usize) -> String {
        match numfmt {
            0 => format!("{}", v),
            1 => format!("{:.6}", v),
            2 => format!("{:E}", v),
            _ => c_exponent(v),
        }
    }

    fn print_doc(blocks: &[Block], l: Layout) -> String {
        let mut out = String::new();
        if l.preamble {
            out.push_str("$ ------------------------------------------------------------------\n$ Fichero de entrada de datos LIDER\n$PROGRAM = LIDER\n$\n");
        }
        if l.noise {
            out.push_str("$ comentario inicial\n\n");
        }
        for b in blocks {
            // the separator stays ` = ` as HULC writes it: only indentation and trailing blanks vary
            let (ind, eq, trail) = match l.spacing {
                0 => ("    ", " = ", ""),
                1 => ("\t\t", " = ", "   "),
                _ => ("", " = ", " "),
            };
            out.push_str(&format!("\"{}\"{}{}{}\n", b.name, eq, b.kind, trail));
            let mut attrs: Vec<&(String, Val)> = b.attrs.iter().collect();
            if l.reversed {
                attrs.reverse();
            }
            for (k, v) in attrs {
                if l.noise {
                    out.push_str("\n$ un comentario entre atributos\n");
                }
                let key = format!("{}{}{}", ind, k, eq);
                match v {
                    Val::Num(x) => out.push_str(&format!("{}{}{}\n", key, fmt_num(*x, l.numfmt), trail)),
                    Val::Word(w) => out.push_str(&if l.quote_words { format!("{}\"{}\"{}\n", key, w, trail) } else { format!("{}{}{}\n", key, w, trail) }),
                    Val::Text(t) => out.push_str(&format!("{}\"{}\"{}\n", key, t, trail)),
                    Val::Names(_) | Val::Nums(_) => {
                        let items: Vec<String> = match v {
                            Val::Names(ns) => ns.iter().map(|n| format!("\"{}\"", n)).collect(),
                            Val::Nums(xs) => xs.iter().map(|x| fmt_num(*x, l.numfmt)).collect(),
                            _ => vec![],
                        };
                        match l.lists {
                            0 => out.push_str(&format!("{}( {} ){}\n", key, items.join(", "), trail)),
                            1 => {
                                if items.len() == 1 {
                                    out.push_str(&format!("{}({}{}\n{}      ){}\n", key, items[0], trail, ind, trail));
                                } else {
                                    out.push_str(&format!("{}({},{}\n", key, items[0], trail));
                                    for (i, it) in items.iter().enumerate().skip(1) {
                                        out.push_str(&format!("{}      {}{}{}\n", ind, it, if i + 1 < items.len() { "," } else { ")" }, trail));
                                    }
                                }
                            }
                            _ => {
                                out.push_str(&format!("{}({}\n", key, trail));
                                for (i, it) in items.iter().enumerate() {
                                    out.push_str(&format!("{}      {}{}{}\n", ind, it, if i + 1 < items.len() { "," } else { "" }, trail));
                                }
                                out.push_str(&format!("{}){}\n", ind, trail));
                            }
                        }
                    }
                }
            }
            out.push_str(&format!("{}..{}\n", ind, trail));
            if l.noise {
                out.push_str("\n$ -----------------------------------\n\n");
            }
        }
        if l.crlf {
            out = out.replace('\n', "\r\n");
        }
        out
    }

    fn layouts(c: &mut Ctx) -> Layout {
        Layout { crlf: c.flag(), noise: c.flag(), spacing: c.pick(3), reversed: c.flag(), numfmt: c.pick(4), quote_words: c.flag(), lists: c.pick(3), preamble: c.flag() }
    }

    /// parent of each block as the property states it: spaces hang from the last floor, walls from the last space,
    /// windows / doors / constructions from the last wall, everything else has no parent
    fn expected_parents(blocks: &[Block]) -> Vec<Option<String>> {
        let (mut floor, mut space, mut wall) = ("Default".to_string(), String::new(), String::new());
        blocks
            .iter()
            .map(|b| match b.kind {
                "FLOOR" => {
                    floor = b.name.clone();
                    None
                }
                "SPACE" => {
                    space = b.name.clone();
                    Some(floor.clone())
                }
                "EXTERIOR-WALL" | "INTERIOR-WALL" | "ROOF" | "UNDERGROUND-WALL" | "UNDERGROUND-FLOOR" => {
                    wall = b.name.clone();
                    Some(space.clone())
                }
                "CONSTRUCTION" | "WINDOW" | "DOOR" => Some(wall.clone()),
                _ => None,
            })
            .collect()
    }

    #[test]
    fn n_c18_blocks() {
        drive("C18.blocks", "build_blocks on documents printed from 200 (quick) / 2000 (thorough) generated descriptions of 1..40 blocks of 28 kinds (0..6 attributes each: number, bare word, quoted text with blanks / commas / accents, name list, number list) x 1152 layouts (LF/CRLF, comments and blank lines, 3 spacing styles, attribute order, 4 number formats (shortest, six decimals, 1.5E3, 1.5E+03), quoted words, 3 list layouts, legacy preamble): every block's name, type, parent and every attribute value", |c| {
            let seeds = if c.tier_thorough { 2000 } else { 200 };
            let seed = c.pick(seeds);
            let l = layouts(c);
            c.note(format!("description #{} {:?}", seed, l));
            let want = describe(seed);
            let text = print_doc(&want, l);
            let got = match build_blocks(&text) {
                Ok(b) => b,
                Err(e) => {
                    c.check("C18.blocks.parses", false, || format!("build_blocks failed: {}", e.to_string().chars().take(200).collect::<String>()));
                    return;
                }
            };
            // the legacy preamble may become a PARTELIDER pseudo-block: it carries no block of the description
            let got: Vec<&BdlBlock> = got.iter().filter(|b| b.btype != BdlBlockType::ParteLider).collect();
            c.check("C18.blocks.count", got.len() == want.len(), || format!("{} blocks written, {} recovered", want.len(), got.len()));
            if got.len() != want.len() {
                return;
            }
            let parents = expected_parents(&want);
            for ((w, g), p) in want.iter().zip(got.iter()).zip(parents.iter()) {
                c.check("C18.blocks.name", g.name == w.name, || format!("block name {:?} recovered as {:?}", w.name, g.name));
                c.check("C18.blocks.type", Some(g.btype) == w.kind.parse::<BdlBlockType>().ok(), || format!("block {} of kind {} recovered as {:?}", w.name, w.kind, g.btype));
                c.check("C18.blocks.parent", g.parent == *p, || format!("block {} ({}): parent {:?}, want {:?}", w.name, w.kind, g.parent, p));
                c.check("C18.blocks.attr_count", g.attrs.0.len() == w.attrs.len(), || format!("block {}: {} attributes written, {} recovered: {:?}", w.name, w.attrs.len(), g.attrs.0.len(), g.attrs.0.keys().collect::<Vec<_>>()));
                for (k, v) in &w.attrs {
                    match v {
                        Val::Num(x) => c.check("C18.blocks.number", g.attrs.get_f32(k).ok() == Some(*x), || format!("{}.{}: number {} recovered as {:?}", w.name, k, x, g.attrs.0.get(k))),
                        Val::Word(s) | Val::Text(s) => c.check("C18.blocks.string", g.attrs.get_str(k).ok().as_deref() == Some(s.as_str()), || format!("{}.{}: string {:?} recovered as {:?}", w.name, k, s, g.attrs.0.get(k))),
                        Val::Names(ns) => c.check("C18.blocks.name_list", g.attrs.get_str(k).ok().map(|t| extract_namesvec(t)) == Some(ns.clone()), || format!("{}.{}: names {:?} recovered as {:?}", w.name, k, ns, g.attrs.0.get(k))),
                        Val::Nums(xs) => c.check("C18.blocks.number_list", g.attrs.get_str(k).ok().and_then(|t| extract_f32vec(t).ok()) == Some(xs.clone()), || format!("{}.{}: numbers {:?} recovered as {:?}", w.name, k, xs, g.attrs.0.get(k))),
                    }
                }
            }
            c.nontrivial(format!("{} {}", seed, want.len()));
            c.sample(|| format!("description #{}: {} blocks, {} bytes, {:?}", seed, want.len(), text.len(), l));
        });
    }

    // ------------------------------------------------------------------------------------------------------------
    // Real files re-printed in a different layout: the typed data (spaces, walls, windows, constructions, schedules...)
    // must not change
    // ------------------------------------------------------------------------------------------------------------
    fn tests_root() -> PathBuf {
        crate_dir(env!("CARGO_MANIFEST_DIR")).join("../hulc_tests/tests")
    }

    fn files_with_ext(dir: &Path, ext: &str, out: &mut Vec<PathBuf>) {
        let mut entries: Vec<PathBuf> = std::fs::read_dir(dir).map(|r| r.filter_map(|e| e.ok().map(|e| e.path())).collect()).unwrap_or_default();
        entries.sort();
        for p in entries {
            if p.is_dir() {
                files_with_ext(&p, ext, out);
            } else if p.extension().and_then(|e| e.to_str()).map(|e| e.eq_ignore_ascii_case(ext)).unwrap_or(false) {
                out.push(p);
            }
        }
    }

    fn read_text(p: &Path) -> String {
        let bytes = std::fs::read(p).unwrap_or_default();
        match String::from_utf8(bytes.clone()) {
            Ok(s) => s,
            Err(_) => bytes.iter().map(|b| *b as char).collect(),
        }
    }

    /// BDL text of a shipped file (the CDATA of <EntradaGraficaLIDER> for .ctehexml)
    fn bdl_text(p: &Path) -> Option<String> {
        let t = read_text(p);
        if p.extension().map(|e| e.eq_ignore_ascii_case("ctehexml")).unwrap_or(false) {
            let a = t.find("<EntradaGraficaLIDER>")? + "<EntradaGraficaLIDER>".len();
            let b = t.find("</EntradaGraficaLIDER>")?;
            let inner = t[a..b].trim();
            let inner = inner.strip_prefix("<![CDATA[").unwrap_or(inner);
            let inner = inner.strip_suffix("]]>").unwrap_or(inner);
            Some(inner.replace("&lt;", "<").replace("&gt;", ">").replace("&amp;", "&").replace("&quot;", "\""))
        } else {
            Some(t)
        }
    }

    /// split `s` at the commas that are outside double quotes
    fn split_outside_quotes(s: &str) -> Vec<String> {
        let (mut out, mut cur, mut in_q) = (vec![], String::new(), false);
        for ch in s.chars() {
            if ch == '"' {
                in_q = !in_q;
            }
            if ch == ',' && !in_q {
                out.push(cur.clone());
                cur.clear();
            } else {
                cur.push(ch);
            }
        }
        out.push(cur);
        out
    }

    /// Re-print a BDL text in another layout, working on its lines only (no knowledge of block kinds). Blocks whose
    /// shape is not the plain `"name" = KIND / KEY = value ... / ..` are copied unchanged.
    fn relayout(text: &str, l: Layout) -> String {
        let norm = text.replace("\r\n", "\n");
        let lines: Vec<&str> = norm.split('\n').collect();
        let mut out: Vec<String> = vec![];
        let mut i = 0;
        let is_header = |t: &str| t.starts_with('"') && t[1..].find('"').map(|q| t[q + 2..].trim_start().starts_with('=')).unwrap_or(false);
        while i < lines.len() {
            let t = lines[i].trim();
            if !is_header(t) {
                out.push(lines[i].to_string());
                i += 1;
                continue;
            }
            // collect the block: header, attribute groups, terminator
            let mut j = i + 1;
            let mut groups: Vec<Vec<String>> = vec![];
            let mut plain = true;
            while j < lines.len() && lines[j].trim() != ".." {
                let a = lines[j].trim();
                if a.is_empty() || a.starts_with('$') {
                    j += 1;
                    continue;
                }
                if is_header(a) || !a.contains('=') {
                    plain = false;
                    break;
                }
                let mut g = vec![a.to_string()];
                let value = a.splitn(2, '=').nth(1).unwrap_or("").trim();
                if value.starts_with('(') && !value.ends_with(')') {
                    j += 1;
                    while j < lines.len() {
                        let cnt = lines[j].trim();
                        g.push(cnt.to_string());
                        if cnt.ends_with(')') {
                            break;
                        }
                        j += 1;
                    }
                }
                groups.push(g);
                j += 1;
            }
            let keys: Vec<String> = groups.iter().map(|g| g[0].splitn(2, '=').next().unwrap_or("").trim().to_string()).collect();
            let dup = keys.iter().enumerate().any(|(a, k)| keys[..a].contains(k));
            if !plain || j >= lines.len() || dup {
                // copy verbatim up to and including the terminator (or the rest)
                let end = if plain && j < lines.len() { j } else { i };
                for k in i..=end {
                    out.push(lines[k].to_string());
                }
                i = end + 1;
                continue;
            }
            // the separator stays ` = ` as HULC writes it: only indentation and trailing blanks vary
            let (ind, eq, trail) = match l.spacing {
                0 => ("    ", " = ", ""),
                1 => ("\t\t", " = ", "   "),
                _ => ("", " = ", " "),
            };
            let (hname, hkind) = {
                let q = t[1..].find('"').unwrap();
                (&t[1..1 + q], t[q + 2..].trim_start().trim_start_matches('=').trim())
            };
            out.push(format!("\"{}\"{}{}{}", hname, eq, hkind, trail));
            if l.reversed {
                groups.reverse();
            }
            for g in &groups {
                if l.noise {
                    out.push(String::new());
                    out.push("$ un comentario entre atributos".to_string());
                }
                let key = g[0].splitn(2, '=').next().unwrap_or("").trim();
                let first_val = g[0].splitn(2, '=').nth(1).unwrap_or("").trim();
                if g.len() == 1 && !first_val.starts_with('(') {
                    // scalar
                    let v = first_val;
                    let nv = if v.starts_with('"') {
                        v.to_string()
                    } else if let Ok(x) = v.parse::<f32>() {
                        if x.is_finite() { fmt_num_exact(x, v, l.numfmt) } else { v.to_string() }
                    } else if l.quote_words && !v.is_empty() && !v.contains('"') {
                        format!("\"{}\"", v)
                    } else {
                        v.to_string()
                    };
                    out.push(format!("{}{}{}{}{}", ind, key, eq, nv, trail));
                } else {
                    // list (possibly over several lines): elements at the commas outside quotes
                    let mut whole = first_val.to_string();
                    for cnt in &g[1..] {
                        whole.push_str(cnt);
                    }
                    let inner = whole.trim();
                    if !(inner.starts_with('(') && inner.ends_with(')')) {
                        for (k, line) in g.iter().enumerate() {
                            out.push(if k == 0 { format!("{}{}", ind, line) } else { line.clone() });
                        }
                        continue;
                    }
                    let items: Vec<String> = split_outside_quotes(&inner[1..inner.len() - 1])
                        .into_iter()
                        .map(|it| {
                            let it = it.trim().to_string();
                            match it.parse::<f32>() {
                                Ok(x) if x.is_finite() && !it.starts_with('"') => fmt_num_exact(x, &it, l.numfmt),
                                _ => it,
                            }
                        })
                        .collect();
                    match l.lists {
                        0 => out.push(format!("{}{}{}({}){}", ind, key, eq, items.join(","), trail)),
                        1 => {
                            if items.len() == 1 {
                                out.push(format!("{}{}{}({}){}", ind, key, eq, items[0], trail));
                            } else {
                                out.push(format!("{}{}{}({},{}", ind, key, eq, items[0], trail));
                                for (k, it) in items.iter().enumerate().skip(1) {
                                    out.push(format!("{}      {}{}{}", ind, it, if k + 1 < items.len() { "," } else { ")" }, trail));
                                }
                            }
                        }
                        _ => {
                            out.push(format!("{}{}{}({}", ind, key, eq, trail));
                            for (k, it) in items.iter().enumerate() {
                                out.push(format!("{}      {}{}{}", ind, it, if k + 1 < items.len() { "," } else { "" }, trail));
                            }
                            out.push(format!("{}){}", ind, trail));
                        }
                    }
                }
            }
            out.push(format!("{}..{}", ind, trail));
            if l.noise {
                out.push(String::new());
                out.push("$ -----------------------------------".to_string());
            }
            i = j + 1;
        }
        let s = out.join("\n");
        if l.crlf {
            s.replace('\n', "\r\n")
        } else {
            s
        }
    }

    /// another spelling of the same f32 (falls back to the original text when the spelling would not parse back to
    /// the same float)
    fn fmt_num_exact(x: f32, original: &str, numfmt: usize) -> String {
        // whole numbers stay as written: some attributes are integer-typed (days, months, counts)
        if !original.contains('.') {
            return original.to_string();
        }
        let s = match numfmt {
            0 => return original.to_string(),
            1 => format!("{}", x),
            2 => format!("{:E}", x),
            _ => c_exponent(x),
        };
        if s.parse::<f32>().ok() == Some(x) {
            s
        } else {
            original.to_string()
        }
    }

    /// Debug text with the blanks inside list values `String("( a, b )")` removed (outside the quoted names of the
    /// list): how a list is broken over lines is layout, not value
    fn normalise_lists(dbg: &str) -> String {
        let mut out = String::with_capacity(dbg.len());
        let mut rest = dbg;
        while let Some(p) = rest.find("String(\"(") {
            let (head, tail) = rest.split_at(p + "String(\"(".len());
            out.push_str(head);
            // up to the closing `")` of this Debug string
            let tb = tail.as_bytes();
            let end = (0..tb.len().saturating_sub(1)).find(|&k| tb[k] == b'"' && tb[k + 1] == b')' && (k == 0 || tb[k - 1] != b'\\')).unwrap_or(tail.len());
            let (body, after) = tail.split_at(end);
            let mut in_q = false;
            let mut prev = ' ';
            let mut squeezed = String::new();
            for ch in body.chars() {
                if ch == '"' && prev == '\\' {
                    in_q = !in_q;
                }
                if ch != ' ' || in_q {
                    squeezed.push(ch);
                }
                prev = ch;
            }
            // ... and every number of the list in one spelling
            let closed = squeezed.ends_with(')');
            let inner = squeezed.trim_end_matches(')');
            let items: Vec<String> = split_outside_quotes(inner).into_iter().map(|it| match it.parse::<f32>() { Ok(x) if !it.contains('"') => format!("{}", x), _ => it }).collect();
            out.push_str(&items.join(","));
            if closed {
                out.push(')');
            }
            rest = after;
        }
        out.push_str(rest);
        out
    }

    #[test]
    fn n_c18_relayout_real() {
        let mut files = vec![];
        files_with_ext(&tests_root(), "ctehexml", &mut files);
        files_with_ext(&tests_root().join("liderdata"), "cte", &mut files);
        let corpus: Vec<(String, String, Option<String>)> = files
            .iter()
            .filter_map(|p| {
                let t = bdl_text(p)?;
                let base = Data::new(&t).ok().map(|d| normalise_lists(&format!("{:?}", d)));
                Some((p.file_name().unwrap().to_string_lossy().to_string(), t, base))
            })
            .collect();
        drive("C18.relayout", "the BDL text of the 12 shipped projects and the 56 legacy LIDER files re-printed line by line in 12 (quick) / 576 (thorough) other layouts (CRLF, comments and blank lines, spacing, attribute order, number spelling, quoted words, list layout): bdl::Data::new gives the same typed data (Debug text of the whole Data) as for the original file", |c| {
            c.check("C18.relayout.corpus", corpus.len() >= 60 && corpus.iter().filter(|f| f.2.is_some()).count() >= 60, || format!("{} files, {} parse", corpus.len(), corpus.iter().filter(|f| f.2.is_some()).count()));
            let k = c.pick(corpus.len());
            let l = if c.tier_thorough {
                Layout { crlf: c.flag(), noise: c.flag(), spacing: c.pick(3), reversed: c.flag(), numfmt: c.pick(4), quote_words: c.flag(), lists: c.pick(3), preamble: false }
            } else {
                // a covering set: every option value appears, with different companions
                let m = c.pick(12);
                Layout { crlf: m % 2 == 1, noise: (m / 2) % 2 == 1, spacing: m % 3, reversed: (m / 3) % 2 == 1, numfmt: m % 4, quote_words: (m / 4) % 2 == 1, lists: (m + m / 3) % 3, preamble: false }
            };
            let (name, text, base) = &corpus[k];
            let base = match base {
                Some(b) => b,
                None => return,
            };
            c.note(format!("{} {:?}", name, l));
            let t2 = relayout(text, l);
            match Data::new(&t2) {
                Err(e) => c.check("C18.relayout.parses", false, || format!("{}: the re-printed file is rejected: {}", name, e.to_string().chars().take(200).collect::<String>())),
                Ok(d) => {
                    let got = normalise_lists(&format!("{:?}", d));
                    c.check("C18.relayout.same_data", got == *base, || {
                        let kdiff = got.bytes().zip(base.bytes()).position(|(a, b)| a != b).unwrap_or(got.len().min(base.len()));
                        let (mut a0, mut a1) = (kdiff.saturating_sub(70), (kdiff + 50).min(got.len()));
                        while !got.is_char_boundary(a0) { a0 -= 1; }
                        while !got.is_char_boundary(a1) { a1 -= 1; }
                        let (mut b0, mut b1) = (kdiff.saturating_sub(70).min(base.len()), (kdiff + 50).min(base.len()));
                        while !base.is_char_boundary(b0) { b0 -= 1; }
                        while !base.is_char_boundary(b1) { b1 -= 1; }
                        format!("{}: typed data differ after re-printing: ...{}... instead of ...{}...", name, &got[a0..a1], &base[b0..b1])
                    });
                    c.nontrivial(format!("{} {}", name, t2.len()));
                    c.sample(|| format!("{}: {} -> {} bytes, same typed data ({} spaces, {} walls, {} windows)", name, text.len(), t2.len(), d.spaces.len(), d.walls.len(), d.windows.len()));
                }
            }
        });
    }

    // ------------------------------------------------------------------------------------------------------------
    // Typed elements carry the written values: the generic blocks (whose recovery C18.blocks checks against the
    // printed description) are the record of what is written; the typed structs of Data must agree with them
    // ------------------------------------------------------------------------------------------------------------
    fn vertices_of(b: &BdlBlock) -> Vec<(f32, f32)> {
        let mut v = vec![];
        let mut k = 1;
        while let Ok(t) = b.attrs.get_str(&format!("V{}", k)) {
            let nums: Vec<f32> = t.trim_matches(&[' ', '(', ')'] as &[_]).split(',').filter_map(|x| x.trim().parse().ok()).collect();
            if nums.len() == 2 {
                v.push((nums[0], nums[1]));
            }
            k += 1;
        }
        v
    }

    /// Whole-file rewrites of written values (the typed oracle reads the blocks of the rewritten text)
    fn rewrite_values(text: &str, rewrite: usize) -> String {
        if rewrite == 0 {
            return text.to_string();
        }
        let mut out = String::with_capacity(text.len());
        let (mut in_window, mut n_windows) = (false, 0usize);
        for line in text.split_inclusive('\n') {
            let (body, eol) = match line.strip_suffix("\r\n") {
                Some(b) => (b, "\r\n"),
                None => match line.strip_suffix('\n') {
                    Some(b) => (b, "\n"),
                    None => (line, ""),
                },
            };
            let mut parts = body.splitn(2, '=');
            let (key, val) = (parts.next().unwrap_or("").trim(), parts.next().map(str::trim));
            let indent = &body[..body.len() - body.trim_start().len()];
            let new: Option<Option<String>> = match (rewrite, key, val) {
                (1, "perteneceALaEnvolventeTermica", Some(v)) => Some(Some(if v.trim_matches('"') == "SI" { "NO".to_string() } else { "SI".to_string() })),
                (2, "TYPE", Some(v)) => match v.trim_matches('"') {
                    "CONDITIONED" => Some(Some("UNHABITED".to_string())),
                    "UNHABITED" => Some(Some("UNCONDITIONED".to_string())),
                    "UNCONDITIONED" => Some(Some("CONDITIONED".to_string())),
                    _ => None,
                },
                (3, "X" | "Y" | "Z" | "WIDTH" | "HEIGHT" | "SETBACK", Some(v)) => v.parse::<f32>().ok().map(|x| Some(format!("{}", x + 0.125))),
                (4, "CONDUCTIVITY" | "DENSITY" | "SPECIFIC-HEAT" | "RESISTANCE" | "GLASS-CONDUCTANCE" | "SHADING-COEF" | "FRAME-CONDUCT" | "FRAME-ABS" | "FRAME-WIDTH" | "PORCENTAGE" | "INF-COEF" | "TTL" | "FRSI" | "LONG-TOTAL", Some(v)) => v.parse::<f32>().ok().map(|x| Some(format!("{}", x * 0.5))),
                (5, "SPECIFIC-HEAT" | "perteneceALaEnvolventeTermica" | "TransmisividadJulio" | "VAPOUR-DIFFUSIVITY-FACTOR" | "THICKNESS" | "TILT", Some(v)) if !v.starts_with('(') => Some(None),
                // rewrites 8 / 9: spaces without a thermostat / loads reference of their own (old LIDER files): both default to SPACE-TYPE
                (8, "SYSTEM-CONDITIONS", Some(_)) => Some(None),
                (9, "SPACE-CONDITIONS", Some(_)) => Some(None),
                _ => None,
            };
            // rewrite 7: a Z of its own on every SPACE (HULC leaves it out: the space then sits on its floor)
            if rewrite == 7 {
                let t = body.trim();
                if t.starts_with('"') && t.ends_with("= SPACE") {
                    out.push_str(line);
                    out.push_str(&format!("{}    Z = 0.5{}", indent, if eol.is_empty() { "\n" } else { eol }));
                    continue;
                }
            }
            // rewrite 6: solar protections on every window, each smaller than 1 m2 (written right before the `..` of the block, where they
            // override earlier values of the same key)
            if rewrite == 6 {
                let t = body.trim();
                if t.starts_with('"') && t.ends_with("= WINDOW") {
                    in_window = true;
                } else if in_window && t == ".." {
                    n_windows += 1;
                    let k = n_windows % 4;
                    if k != 1 {
                        out.push_str(&format!("{}OVERHANG-A = 0.25{}{}OVERHANG-B = 0.5{}{}OVERHANG-D = 0.75{}{}OVERHANG-W = 1.25{}{}OVERHANG-ANGLE = 15{}", indent, eol, indent, eol, indent, eol, indent, eol, indent, eol));
                    }
                    if k != 2 {
                        out.push_str(&format!("{}LEFT-FIN-A = 0.125{}{}LEFT-FIN-B = 0.375{}{}LEFT-FIN-D = 0.5{}{}LEFT-FIN-H = 1.75{}", indent, eol, indent, eol, indent, eol, indent, eol));
                    }
                    if k != 3 {
                        out.push_str(&format!("{}RIGHT-FIN-A = 0.0625{}{}RIGHT-FIN-B = 0.1875{}{}RIGHT-FIN-D = 0.3125{}{}RIGHT-FIN-H = 1.5{}", indent, eol, indent, eol, indent, eol, indent, eol));
                    }
                    in_window = false;
                }
            }
            match new {
                None => out.push_str(line),
                Some(None) => {}
                Some(Some(v)) => {
                    out.push_str(indent);
                    out.push_str(key);
                    out.push_str(" = ");
                    out.push_str(&v);
                    out.push_str(eol);
                }
            }
        }
        out
    }

    #[test]
    fn n_c18_typed() {
        let mut files = vec![];
        files_with_ext(&tests_root(), "ctehexml", &mut files);
        files_with_ext(&tests_root().join("liderdata"), "cte", &mut files);
        let corpus: Vec<(String, String)> = files.iter().filter_map(|p| Some((p.file_name().unwrap().to_string_lossy().to_string(), bdl_text(p)?))).collect();
        drive("C18.typed", "the 68 shipped BDL texts, as shipped and with 9 whole-file rewrites of written values (envelope flag SI <-> NO, space TYPE rotated, every X / Y / Z / WIDTH / HEIGHT / SETBACK shifted, every material / glazing / frame number halved, optional attributes incl. TILT removed so that the legacy defaults apply, overhangs / fins written on every window, a Z of its own written on every space, every space without its SYSTEM-CONDITIONS / without its SPACE-CONDITIONS reference): every window, wall, space, polygon, material, layer set, glazing, frame, window construction, rectangular shade and thermal bridge of bdl::Data against the attribute values of its own block", |c| {
            let (name, text) = c.of(&corpus);
            let rewrite = c.pick(10);
            c.note(format!("{} rewrite {}", name, rewrite));
            let text = rewrite_values(&text, rewrite);
            let (blocks, data) = match (build_blocks(&text), Data::new(&text)) {
                (Ok(b), Ok(d)) => (b, d),
                _ => return,
            };
            let f = |b: &BdlBlock, k: &str| b.attrs.get_f32(k).ok();
            let st = |b: &BdlBlock, k: &str| b.attrs.get_str(k).ok();
            let polygons: std::collections::BTreeMap<&str, &BdlBlock> = blocks.iter().filter(|b| b.btype == BdlBlockType::Polygon).map(|b| (b.name.as_str(), b)).collect();
            let (mut nw, mut nwall, mut nsp, mut nmat) = (0, 0, 0, 0);
            for b in &blocks {
                use BdlBlockType::*;
                match b.btype {
                    Window => {
                        if let Some(w) = data.get_window(&b.name) {
                            nw += 1;
                            // an overhang / fin exists exactly when its written depth x extent is positive, with the written sizes
                            let g = |k: &str| f(b, k).unwrap_or(0.0);
                            let oh_ok = match &w.overhang {
                                Some(o) => g("OVERHANG-D") * g("OVERHANG-W") > 0.0 && o.depth == g("OVERHANG-D") && o.width == g("OVERHANG-W") && o.a == g("OVERHANG-A") && o.b == g("OVERHANG-B") && o.angle == g("OVERHANG-ANGLE"),
                                None => !(g("OVERHANG-D") * g("OVERHANG-W") > 0.0),
                            };
                            let lf_ok = match &w.left_fin {
                                Some(x) => g("LEFT-FIN-D") * g("LEFT-FIN-H") > 0.0 && x.depth == g("LEFT-FIN-D") && x.height == g("LEFT-FIN-H") && x.a == g("LEFT-FIN-A") && x.b == g("LEFT-FIN-B"),
                                None => !(g("LEFT-FIN-D") * g("LEFT-FIN-H") > 0.0),
                            };
                            let rf_ok = match &w.right_fin {
                                Some(x) => g("RIGHT-FIN-D") * g("RIGHT-FIN-H") > 0.0 && x.depth == g("RIGHT-FIN-D") && x.height == g("RIGHT-FIN-H") && x.a == g("RIGHT-FIN-A") && x.b == g("RIGHT-FIN-B"),
                                None => !(g("RIGHT-FIN-D") * g("RIGHT-FIN-H") > 0.0),
                            };
                            c.check("C18.typed.window.protections", oh_ok && lf_ok && rf_ok, || format!("{}: window {}: overhang {:?} left fin {:?} right fin {:?} but the block says {:?}", name, b.name, w.overhang, w.left_fin, w.right_fin, b.attrs.0));
                            c.check("C18.typed.window", Some(w.x) == f(b, "X") && Some(w.y) == f(b, "Y") && Some(w.width) == f(b, "WIDTH") && Some(w.height) == f(b, "HEIGHT") && Some(w.setback) == f(b, "SETBACK") && Some(w.cons.clone()) == st(b, "GAP") && Some(w.wall.clone()) == b.parent, || format!("{}: window {} = {:?} but the block says {:?} under {:?}", name, b.name, (w.x, w.y, w.width, w.height, w.setback, &w.cons, &w.wall), b.attrs.0, b.parent));
                        } else {
                            c.check("C18.typed.window.present", false, || format!("{}: window {} is written but missing from the data", name, b.name));
                        }
                    }
                    ExteriorWall | InteriorWall | UndergroundWall | Roof => {
                        if let Some(w) = data.get_wall(&b.name) {
                            nwall += 1;
                            // documented defaults: location TOP / BOTTOM / SPACE-Vn (kept as Vn); tilt when not written:
                            // roofs and TOP elements 0, BOTTOM elements 180, everything else 90; boundary by block type
                            let loc_want = st(b, "LOCATION").map(|l| l.strip_prefix("SPACE-").map(str::to_string).unwrap_or(l));
                            let tilt_want = f(b, "TILT").unwrap_or(if b.btype == Roof || loc_want.as_deref() == Some("TOP") { 0.0 } else if loc_want.as_deref() == Some("BOTTOM") { 180.0 } else { 90.0 });
                            let bounds_want = match (b.btype, st(b, "INT-WALL-TYPE").as_deref()) {
                                (InteriorWall, Some("ADIABATIC")) => "ADIABATIC",
                                (InteriorWall, _) => "INTERIOR",
                                (UndergroundWall, _) => "GROUND",
                                _ => "EXTERIOR",
                            };
                            c.check("C18.typed.wall.defaults", w.tilt == tilt_want && w.location == loc_want && format!("{:?}", w.bounds) == bounds_want && w.polygon.is_some() == st(b, "POLYGON").is_some(), || format!("{}: wall {} ({:?}): tilt {} location {:?} bounds {:?} polygon {} but the block says {:?}", name, b.name, b.btype, w.tilt, w.location, w.bounds, w.polygon.is_some(), b.attrs.0));
                            c.check("C18.typed.wall", Some(w.cons.clone()) == st(b, "CONSTRUCTION") && Some(w.space.clone()) == b.parent && w.x == f(b, "X").unwrap_or(0.0) && w.y == f(b, "Y").unwrap_or(0.0) && w.z == f(b, "Z").unwrap_or(0.0) && f(b, "TILT").map(|t| t == w.tilt).unwrap_or(true) && w.nextto == (if bounds_want == "INTERIOR" { st(b, "NEXT-TO") } else { None }), || format!("{}: wall {} = {:?} but the block says {:?} under {:?}", name, b.name, (&w.cons, &w.space, w.x, w.y, w.z, w.tilt, &w.nextto), b.attrs.0, b.parent));
                        } else {
                            c.check("C18.typed.wall.present", false, || format!("{}: wall {} is written but missing from the data", name, b.name));
                        }
                    }
                    Space => {
                        if let Some(s) = data.get_space(&b.name) {
                            nsp += 1;
                            let poly_ok = st(b, "POLYGON").and_then(|p| polygons.get(p.as_str()).map(|pb| vertices_of(pb))).map(|v| v.len() == s.polygon.0.len() && v.iter().zip(s.polygon.0.iter()).all(|(a, p)| a.0 == p.x && a.1 == p.y)).unwrap_or(false);
                            c.check("C18.typed.space", Some(s.stype.clone()) == st(b, "TYPE") && s.x == f(b, "X").unwrap_or(0.0) && s.y == f(b, "Y").unwrap_or(0.0) && Some(s.multiplier) == f(b, "MULTIPLIER") && Some(s.floor.clone()) == b.parent && Some(s.power) == f(b, "POWER"), || format!("{}: space {} = {:?} but the block says {:?} under {:?}", name, b.name, (&s.stype, s.x, s.y, s.multiplier, &s.floor, s.power), b.attrs.0, b.parent));
                            // a space sits on its floor: z = Z of the FLOOR block + the space's own Z (0 when not written)
                            let floor_z = b.parent.as_ref().and_then(|fl| blocks.iter().find(|x| x.btype == Floor && x.name == *fl)).and_then(|fb| f(fb, "Z")).unwrap_or(0.0);
                            // the conditions a space names; absent in old LIDER files, where both are its SPACE-TYPE
                            let stype_written = st(b, "SPACE-TYPE");
                            c.check("C18.typed.space.conditions", Some(s.spacetype.clone()) == stype_written && Some(s.spaceconds.clone()) == st(b, "SPACE-CONDITIONS").or(stype_written.clone()) && Some(s.systemconds.clone()) == st(b, "SYSTEM-CONDITIONS").or(stype_written.clone()), || format!("{}: space {}: type / loads / thermostat = {:?} but the block says {:?} / {:?} / {:?}", name, b.name, (&s.spacetype, &s.spaceconds, &s.systemconds), st(b, "SPACE-TYPE"), st(b, "SPACE-CONDITIONS"), st(b, "SYSTEM-CONDITIONS")));
                            c.check("C18.typed.space.z", s.z == floor_z + f(b, "Z").unwrap_or(0.0), || format!("{}: space {}: z {} but its floor is at {} and the block says Z = {:?}", name, b.name, s.z, floor_z, f(b, "Z")));
                            let inside_want = match st(b, "perteneceALaEnvolventeTermica").as_deref() {
                                Some("SI") => true,
                                Some(_) => false,
                                // documented legacy default: files without the attribute count conditioned spaces as inside
                                None => s.stype == "CONDITIONED",
                            };
                            c.check("C18.typed.space.envelope_flag", s.insidete == inside_want, || format!("{}: space {} (TYPE {}): inside the envelope = {} but the block says {:?}", name, b.name, s.stype, s.insidete, st(b, "perteneceALaEnvolventeTermica")));
                            c.check("C18.typed.space.polygon", poly_ok, || format!("{}: space {}: polygon {:?} differs from the vertices written in block {:?}", name, b.name, s.polygon.0, st(b, "POLYGON")));
                        } else {
                            c.check("C18.typed.space.present", false, || format!("{}: space {} is written but missing from the data", name, b.name));
                        }
                    }
                    Material => {
                        if let Some(m) = data.db.materials.get(&b.name) {
                            nmat += 1;
                            let ok = if st(b, "TYPE").as_deref() == Some("PROPERTIES") {
                                matches!(m.properties, Some(p) if Some(p.conductivity) == f(b, "CONDUCTIVITY") && Some(p.density) == f(b, "DENSITY") && p.specificheat == f(b, "SPECIFIC-HEAT").unwrap_or(800.0) && p.thickness == f(b, "THICKNESS") && p.vapourdiffusivity == f(b, "VAPOUR-DIFFUSIVITY-FACTOR"))
                            } else {
                                m.resistance == f(b, "RESISTANCE") && m.properties.is_none()
                            };
                            c.check("C18.typed.material", ok, || format!("{}: material {} = {:?} / {:?} but the block says {:?}", name, b.name, m.properties, m.resistance, b.attrs.0));
                        }
                    }
                    Layers => {
                        if let Some(w) = data.db.wallcons.get(&b.name) {
                            // documented correction: air chambers take the thickness their name states, not the written 5 cm
                            let written = st(b, "THICKNESS").and_then(|t| extract_f32vec(t).ok()).unwrap_or_default();
                            let thick_ok = written.len() == w.thickness.len() && w.material.iter().zip(written.iter().zip(w.thickness.iter())).all(|(m, (a, t))| m.starts_with("Cámara de aire ") || a == t);
                            c.check("C18.typed.layers", st(b, "MATERIAL").map(|t| extract_namesvec(t)) == Some(w.material.clone()) && thick_ok, || format!("{}: layers {} = {:?} {:?} but the block says {:?}", name, b.name, w.material, w.thickness, b.attrs.0));
                            // a layer set writes no absorptance of its own: the documented default
                            c.check("C18.typed.layers.absorptance", (w.absorptance - 0.6).abs() < 1e-6, || format!("{}: layers {} have absorptance {} (nothing written: 0.6)", name, b.name, w.absorptance));
                        }
                    }
                    Construction => {
                        // a construction under a name of its own is its layer set with the written absorptance (0.6 when none is written)
                        if let Some(layers) = st(b, "LAYERS") {
                            if layers != b.name {
                                let want = f(b, "ABSORPTANCE").unwrap_or(0.6);
                                let ok = matches!((data.db.wallcons.get(&b.name), data.db.wallcons.get(&layers)), (Some(w), Some(l)) if (w.absorptance - want).abs() < 1e-6 && w.material == l.material && w.thickness == l.thickness);
                                c.check("C18.typed.construction", ok, || format!("{}: construction {} over layers {}: {:?}, written absorptance {:?}", name, b.name, layers, data.db.wallcons.get(&b.name).map(|w| (w.absorptance, w.material.len())), f(b, "ABSORPTANCE")));
                            }
                        }
                    }
                    GlassType => {
                        if let Some(g) = data.db.glasses.get(&b.name) {
                            c.check("C18.typed.glass", Some(g.conductivity) == f(b, "GLASS-CONDUCTANCE") && f(b, "SHADING-COEF").map(|x| (g.g_gln - x * 0.86).abs() < 1e-6).unwrap_or(false), || format!("{}: glazing {} = {:?} but the block says {:?}", name, b.name, (g.conductivity, g.g_gln), b.attrs.0));
                        }
                    }
                    NameFrame => {
                        if let Some(fr) = data.db.frames.get(&b.name) {
                            c.check("C18.typed.frame", Some(fr.conductivity) == f(b, "FRAME-CONDUCT") && Some(fr.absorptivity) == f(b, "FRAME-ABS") && Some(fr.width) == f(b, "FRAME-WIDTH"), || format!("{}: frame {} = {:?} but the block says {:?}", name, b.name, (fr.conductivity, fr.absorptivity, fr.width), b.attrs.0));
                        }
                    }
                    Gap => {
                        if let Some(w) = data.db.wincons.get(&b.name) {
                            c.check("C18.typed.gap", Some(w.glass.clone()) == st(b, "GLASS-TYPE") && Some(w.frame.clone()) == st(b, "NAME-FRAME") && f(b, "PORCENTAGE").map(|x| (w.framefrac - x / 100.0).abs() < 1e-6).unwrap_or(false) && Some(w.infcoeff) == f(b, "INF-COEF") && w.gglshwi == f(b, "TransmisividadJulio"), || format!("{}: window construction {} = {:?} but the block says {:?}", name, b.name, (&w.glass, &w.frame, w.framefrac, w.infcoeff, w.gglshwi), b.attrs.0));
                        }
                    }
                    BuildingShade => {
                        // a shade given by its corners: V1, V2, ... in the order of their numbers (V10 after V9)
                        if let (Some(sh), Some(_)) = (data.shadings.iter().find(|s| s.name == b.name), st(b, "V1")) {
                            let mut written: Vec<Vec<f32>> = vec![];
                            let mut k = 1;
                            while let Some(t) = st(b, &format!("V{}", k)) {
                                written.push(t.trim_matches(&[' ', '(', ')'] as &[_]).split(',').filter_map(|x| x.trim().parse().ok()).collect());
                                k += 1;
                            }
                            let ok = matches!(&sh.vertices, Some(v) if v.len() == written.len() && v.iter().zip(written.iter()).all(|(p, w)| w.len() == 3 && p.x == w[0] && p.y == w[1] && p.z == w[2]));
                            c.check("C18.typed.shade.vertices", ok, || format!("{}: shade {} has corners {:?} but the block writes {:?}", name, b.name, sh.vertices, written));
                            if written.len() >= 10 {
                                c.nontrivial(format!("{} {} corners", b.name, written.len()));
                            }
                        }
                        if let (Some(sh), Some(_)) = (data.shadings.iter().find(|s| s.name == b.name), f(b, "X")) {
                            c.check("C18.typed.shade", matches!(&sh.geometry, Some(g) if Some(g.x) == f(b, "X") && Some(g.y) == f(b, "Y") && Some(g.z) == f(b, "Z") && Some(g.width) == f(b, "WIDTH") && Some(g.height) == f(b, "HEIGHT") && Some(g.azimuth) == f(b, "AZIMUTH") && Some(g.tilt) == f(b, "TILT")) && Some(sh.tran) == f(b, "TRAN") && Some(sh.refl) == f(b, "REFL"), || format!("{}: shade {} = {:?} but the block says {:?}", name, b.name, sh.geometry, b.attrs.0));
                        }
                    }
                    ThermalBridge => {
                        // LONGITUDES_CALCULADAS only carries the computed total length
                        // (a legacy file may define the same bridge name twice: pair the k-th block with the k-th element)
                        let k = blocks.iter().filter(|x| x.btype == BdlBlockType::ThermalBridge).position(|x| std::ptr::eq(x, b)).unwrap_or(usize::MAX);
                        if let Some(tb) = data.thermal_bridges.get(k).filter(|t| t.name == b.name && t.name != "LONGITUDES_CALCULADAS") {
                            c.check("C18.typed.bridge", tb.length == f(b, "LONG-TOTAL") && Some(tb.psi) == f(b, "TTL") && Some(tb.frsi) == f(b, "FRSI"), || format!("{}: thermal bridge {} = {:?} but the block says {:?}", name, b.name, (tb.length, tb.psi, tb.frsi), b.attrs.0));
                        }
                    }
                    _ => {}
                }
            }
            c.check("C18.typed.counts", nw == data.windows.len() && nwall <= data.walls.len() && nsp == data.spaces.len(), || format!("{}: {} window / {} space blocks but {} windows / {} spaces in the data", name, nw, nsp, data.windows.len(), data.spaces.len()));
            c.nontrivial(format!("{} {}", name, rewrite));
            c.sample(|| format!("{} rewrite {}: {} windows, {} walls, {} spaces, {} materials agree with their blocks", name, rewrite, nw, nwall, nsp, nmat));
        });
    }

    // KyGananciasSolares.txt: either decimal separator, blank lines, CRLF
    #[test]
    fn n_c18_kyg_layout() {
        let mut files = vec![];
        files_with_ext(&tests_root(), "txt", &mut files);
        let corpus: Vec<(String, String)> = files.iter().filter(|p| p.file_name().unwrap().to_string_lossy().starts_with("KyGananciasSolares")).map(|p| (p.parent().unwrap().file_name().unwrap().to_string_lossy().to_string(), read_text(p))).collect();
        drive("C18.kyg", "the shipped KyGananciasSolares.txt files with every decimal point written as a comma / every decimal comma as a point, CRLF line ends, blanks around the separators: hulc::kyg::parse gives the same data", |c| {
            c.check("C18.kyg.corpus", corpus.len() >= 3, || format!("{} files", corpus.len()));
            let (name, text) = c.of(&corpus);
            let variant = c.pick(4);
            c.note(format!("{}/KyGananciasSolares.txt variant {}", name, variant));
            let base = match crate::kyg::parse(&text) {
                Ok(k) => format!("{:?}", k),
                Err(_) => return,
            };
            let swap = |field: &str, from: char, to: char| -> String {
                let f = field.trim();
                if !f.is_empty() && f.chars().all(|ch| ch.is_ascii_digit() || ch == from || ch == '-') && f.matches(from).count() == 1 && f.replace(from, ".").parse::<f32>().is_ok() {
                    field.replace(from, &to.to_string())
                } else {
                    field.to_string()
                }
            };
            let t2: String = text
                .lines()
                .map(|line| {
                    if line.trim_start().starts_with('#') {
                        return line.to_string();
                    }
                    let fields: Vec<String> = line.split(';').map(|f| match variant {
                        0 => swap(f, '.', ','),
                        1 => swap(f, ',', '.'),
                        2 => format!("  {}  ", f),
                        _ => f.to_string(),
                    }).collect();
                    fields.join(";")
                })
                .collect::<Vec<_>>()
                .join(if variant == 3 { "\r\n" } else { "\n" });
            match crate::kyg::parse(&t2) {
                Err(e) => c.check("C18.kyg.parses", false, || format!("{}: variant {} rejected: {}", name, variant, e)),
                Ok(k) => {
                    c.check("C18.kyg.same_data", format!("{:?}", k) == base, || format!("{}: variant {} gives other data", name, variant));
                    c.nontrivial(format!("{} {}", name, variant));
                    c.sample(|| format!("{} variant {}: {} windows, {} walls, {} bridges, same data", name, variant, k.windows.len(), k.walls.len(), k.thermal_bridges.len()));
                }
            }
        });
    }

    // NewBDL_O.tbl: line ends and blanks between the columns are layout
    #[test]
    fn n_c18_tbl_layout() {
        let mut files = vec![];
        files_with_ext(&tests_root(), "tbl", &mut files);
        let corpus: Vec<(String, PathBuf)> = files.iter().map(|p| (p.parent().unwrap().file_name().unwrap().to_string_lossy().to_string(), p.clone())).collect();
        let tmp = std::env::var("VERIF_TMP").map(PathBuf::from).unwrap_or_else(|_| std::env::temp_dir());
        drive("C18.tbl", "the shipped NewBDL_O.tbl files with LF instead of CRLF line ends, two blanks or a tab between the columns, trailing blanks: hulc::tbl::parse gives the same data", |c| {
            c.check("C18.tbl.corpus", corpus.len() >= 6, || format!("{} files", corpus.len()));
            let (name, path) = c.of(&corpus);
            let variant = c.pick(4);
            c.note(format!("{}/NewBDL_O.tbl variant {}", name, variant));
            let base = match crate::tbl::parse(&path) {
                Ok(t) => format!("{:?}", t),
                Err(_) => return,
            };
            let bytes = std::fs::read(&path).unwrap_or_default();
            let text: String = bytes.iter().map(|b| *b as char).collect();
            let t2: String = text
                .replace("\r\n", "\n")
                .split('\n')
                .map(|l| {
                    if l.starts_with('"') || !l.contains(' ') {
                        return l.to_string();
                    }
                    match variant {
                        1 => l.replace(' ', "  "),
                        2 => l.replace(' ', "\t"),
                        3 => format!("{}   ", l),
                        _ => l.to_string(),
                    }
                })
                .collect::<Vec<_>>()
                .join(if variant == 0 { "\n" } else { "\r\n" });
            let p2 = tmp.join(format!("verif-c18-{}-{}-{}.tbl", std::process::id(), name, variant));
            std::fs::write(&p2, t2.chars().map(|ch| ch as u32 as u8).collect::<Vec<u8>>()).unwrap();
            let r = crate::tbl::parse(&p2);
            let _ = std::fs::remove_file(&p2);
            match r {
                Err(e) => c.check("C18.tbl.parses", false, || format!("{}: variant {} rejected: {:#}", name, variant, e)),
                Ok(t) => {
                    c.check("C18.tbl.same_data", format!("{:?}", t) == base, || format!("{}: variant {} gives other data", name, variant));
                    c.nontrivial(format!("{} {}", name, variant));
                    c.sample(|| format!("{} variant {}: {} elements, {} spaces, same data", name, variant, t.elements.len(), t.spaces.len()));
                }
            }
        });
    }

    // KyGananciasSolares.txt and NewBDL_O.tbl: the values of the shipped files, read column by column as the format
    // documents them (own reader: split at ';' / blanks, decimal comma or point)
    #[test]
    fn n_c18_results_values() {
        let mut kygs = vec![];
        files_with_ext(&tests_root(), "txt", &mut kygs);
        kygs.retain(|p| p.file_name().unwrap().to_string_lossy().starts_with("KyGananciasSolares"));
        let mut tbls = vec![];
        files_with_ext(&tests_root(), "tbl", &mut tbls);
        let n_kyg = kygs.len();
        let all: Vec<PathBuf> = kygs.into_iter().chain(tbls.into_iter()).collect();
        let num = |t: &str| -> f32 { t.trim().replace(',', ".").parse().unwrap_or(f32::NAN) };
        drive("C18.results", "every shipped KyGananciasSolares.txt and NewBDL_O.tbl, as shipped, with every decimal column shifted by a column-specific amount (so that no two columns hold the same value) and - KyG - in the column layout written before CTE HE 2019: each window / wall / thermal bridge / K / insolation factor / solar gains line and each element line against an own column-by-column reading of the file", |c| {
            c.check("C18.results.corpus", n_kyg >= 3 && all.len() >= 9, || format!("{} KyG, {} files", n_kyg, all.len()));
            let k = c.pick(all.len());
            let variant = c.pick(3);
            let distinct = variant == 1;
            let old_layout = variant == 2;
            let path = &all[k];
            if old_layout && k >= n_kyg {
                return;
            }
            let name = format!("{}/{}{}", path.parent().unwrap().file_name().unwrap().to_string_lossy(), path.file_name().unwrap().to_string_lossy(), if distinct { " (columns made distinct)" } else if old_layout { " (old column layout)" } else { "" });
            c.note(name.clone());
            let mut text = read_text(path);
            if distinct {
                // shipped files repeat values across columns (e.g. winter and summer factors): add (column + 1) / 8 to
                // the j-th numeric field of every data line so that a swapped column cannot go unnoticed
                let kyg = k < n_kyg;
                text = text
                    .split_inclusive('\n')
                    .enumerate()
                    .map(|(li, line)| {
                        let body = line.trim_end_matches(&['\r', '\n'][..]);
                        let eol = &line[body.len()..];
                        let sep = if kyg { ';' } else { ' ' };
                        if (kyg && (body.starts_with('#') || !body.contains(';'))) || (!kyg && (li < 3 || body.trim_start().starts_with('"'))) {
                            return line.to_string();
                        }
                        let fields: Vec<String> = body
                            .split(sep)
                            .enumerate()
                            .map(|(j, f)| {
                                let t = f.trim();
                                // only decimal numbers (integer codes and names stay)
                                match t.replace(',', ".").parse::<f32>() {
                                    Ok(x) if t.contains('.') || t.contains(',') => format!("{}{:.6}", if f.starts_with(' ') { " " } else { "" }, x + (j as f32 + 1.0) / 8.0),
                                    _ => f.to_string(),
                                }
                            })
                            .collect();
                        format!("{}{}", fields.join(&sep.to_string()), eol)
                    })
                    .collect();
            }
            if old_layout {
                // the layout written before CTE HE 2019: no glazing / permeability / construction columns
                text = text
                    .split_inclusive('\n')
                    .map(|line| {
                        let body = line.trim_end_matches(&['\r', '\n'][..]);
                        let eol = &line[body.len()..];
                        let keep = if body.starts_with("Ventana;") { 6 } else if body.starts_with("Muro;") { 5 } else if body.starts_with("PPTT;") { 4 } else { usize::MAX };
                        let fields: Vec<&str> = body.split(';').collect();
                        format!("{}{}", fields[..fields.len().min(keep)].join(";"), eol)
                    })
                    .collect();
            }
            let tmp = std::env::var("VERIF_TMP").map(PathBuf::from).unwrap_or_else(|_| std::env::temp_dir());
            let tmp_path = tmp.join(format!("verif-c18-values-{}-{}-{}.tbl", std::process::id(), k, variant));
            let path: &PathBuf = if distinct && k >= n_kyg {
                std::fs::write(&tmp_path, text.chars().map(|ch| ch as u32 as u8).collect::<Vec<u8>>()).unwrap();
                &tmp_path
            } else {
                path
            };
            if k < n_kyg {
                let d = match crate::kyg::parse(&text) {
                    Ok(d) => d,
                    Err(e) => {
                        c.check("C18.results.kyg.parses", false, || format!("{}: {}", name, e));
                        return;
                    }
                };
                let (mut nwin, mut nwall, mut ntb, mut nh) = (0, 0, 0, 0);
                for line in text.lines().map(str::trim) {
                    let v: Vec<&str> = line.split(';').map(str::trim).collect();
                    match v[0] {
                        "Ventana" if v.len() >= 6 => {
                            nwin += 1;
                            let w = d.windows.get(v[1]);
                            c.check("C18.results.kyg.window", matches!(w, Some(w) if w.a == num(v[2]) && w.u == num(v[3]) && w.orientation == v[4].replace('O', "W") && (w.ff - num(v[5]) / 100.0).abs() < 1e-6 && (if v.len() > 10 { w.ggln == Some(num(v[6])) && w.infcoeff_100 == Some(num(v[9])) && w.cons.as_deref() == Some(v[10]) } else { w.ggln.is_none() && w.infcoeff_100.is_none() && w.cons.is_none() })), || format!("{}: line {:?} read as {:?}", name, line, w));
                        }
                        "Muro" if v.len() >= 5 => {
                            nwall += 1;
                            let w = d.walls.get(v[1]);
                            c.check("C18.results.kyg.wall", matches!(w, Some(w) if w.a == num(v[2]) && w.u == num(v[3]) && w.btrx == num(v[4]) && (if v.len() > 7 { w.wtype.as_deref() == Some(v[5]) && w.orientation.as_deref() == Some(v[6]) && w.cons.as_deref() == Some(v[7]) } else { w.wtype.is_none() && w.orientation.is_none() && w.cons.is_none() })), || format!("{}: line {:?} read as {:?}", name, line, w));
                        }
                        "PPTT" if v.len() >= 4 => {
                            ntb += 1;
                            let t = d.thermal_bridges.get(v[3]);
                            c.check("C18.results.kyg.bridge", matches!(t, Some(t) if t.l == num(v[1]) && t.psi == num(v[2])), || format!("{}: line {:?} read as {:?}", name, line, t));
                        }
                        x if x.starts_with("Coeficiente K") && v.len() >= 2 => c.check("C18.results.kyg.k", d.k == num(v[1]), || format!("{}: K {} read as {}", name, v[1], d.k)),
                        x if x.len() == 1 && "012345678".contains(x) && v.len() >= 2 => {
                            c.check("C18.results.kyg.hfactor", d.hfactors.get(nh) == Some(&num(v[1])), || format!("{}: insolation factor {} = {} read as {:?}", name, x, v[1], d.hfactors.get(nh)));
                            nh += 1;
                        }
                        x if x.starts_with('"') && v.len() >= 8 => {
                            let w = d.windows.get(x.trim_matches('"'));
                            c.check("C18.results.kyg.gains", matches!(w, Some(w) if w.azimuth_n == num(v[1]) && (w.fshobst - num(v[6]) / num(v[3])).abs() < 1e-6), || format!("{}: gains line {:?} read as {:?}", name, line, w.map(|w| (w.azimuth_n, w.fshobst))));
                        }
                        _ => {}
                    }
                }
                c.check("C18.results.kyg.counts", nwin == d.windows.len() && nwall == d.walls.len() && ntb >= d.thermal_bridges.len() && nh == d.hfactors.len(), || format!("{}: {} / {} / {} / {} lines, {} windows {} walls {} bridges {} factors read", name, nwin, nwall, ntb, nh, d.windows.len(), d.walls.len(), d.thermal_bridges.len(), d.hfactors.len()));
                c.nontrivial(name.clone());
                c.sample(|| format!("{}: {} windows, {} walls, {} bridges, K {}", name, nwin, nwall, ntb, d.k));
            } else {
                let d = match crate::tbl::parse(path) {
                    Ok(d) => d,
                    Err(e) => {
                        c.check("C18.results.tbl.parses", false, || format!("{}: {:#}", name, e));
                        return;
                    }
                };
                let lines: Vec<&str> = text.lines().collect();
                let counts: Vec<usize> = lines.get(2).map(|l| l.split_whitespace().filter_map(|x| x.parse().ok()).collect()).unwrap_or_default();
                c.check("C18.results.tbl.counts", counts.len() >= 2 && d.elements.len() <= counts[0] && d.spaces.len() <= counts[1] && !d.elements.is_empty(), || format!("{}: header says {:?}, read {} elements {} spaces", name, counts, d.elements.len(), d.spaces.len()));
                let n_el = counts.first().copied().unwrap_or(0);
                for i in 0..n_el {
                    let (nl, vl) = (lines.get(3 + 2 * i), lines.get(4 + 2 * i));
                    if let (Some(nl), Some(vl)) = (nl, vl) {
                        let ename = nl.trim().trim_matches('"').trim();
                        let v: Vec<&str> = vl.split_whitespace().collect();
                        if v.len() != 10 || ename.contains(' ') {
                            continue;
                        }
                        // a later element of the same name replaces an earlier one
                        let last = (0..n_el).filter(|j| lines.get(3 + 2 * j).map(|l| l.trim().trim_matches('"').trim() == ename).unwrap_or(false)).max() == Some(i);
                        if !last {
                            continue;
                        }
                        let e = d.elements.get(ename);
                        c.check("C18.results.tbl.element", matches!(e, Some(e) if e.area == num(v[0]) && e.u == num(v[1]) && e.w_or_inf == num(v[2]) && e.g_winter == num(v[3]) && e.g_summer == num(v[4]) && e.ang_north == num(v[5]) && e.tilt == num(v[6]) && e.id_surf == v[8].parse::<i32>().unwrap_or(i32::MIN) && e.id_space == v[9].parse::<i32>().unwrap_or(i32::MIN)), || format!("{}: element {} {:?} read as {:?}", name, ename, v, e));
                    }
                }
                // ... and the space lines that follow the elements: name, then code / multiplier / area / internal sources
                let n_sp = counts.get(1).copied().unwrap_or(0);
                let mut seen_spaces = std::collections::BTreeSet::new();
                for i in 0..n_sp {
                    let (nl, vl) = (lines.get(3 + 2 * n_el + 2 * i), lines.get(4 + 2 * n_el + 2 * i));
                    if let (Some(nl), Some(vl)) = (nl, vl) {
                        let sname = nl.trim().trim_matches('"').trim();
                        let v: Vec<&str> = vl.split_whitespace().collect();
                        if v.len() != 4 {
                            continue;
                        }
                        seen_spaces.insert(sname.to_string());
                        let last = (0..n_sp).filter(|j| lines.get(3 + 2 * n_el + 2 * j).map(|l| l.trim().trim_matches('"').trim() == sname).unwrap_or(false)).max() == Some(i);
                        if !last {
                            continue;
                        }
                        let sp = d.spaces.get(sname);
                        c.check("C18.results.tbl.space", matches!(sp, Some(sp) if sp.id_space == v[0].parse::<i32>().unwrap_or(i32::MIN) && sp.mult == v[1].parse::<i32>().unwrap_or(i32::MIN) && sp.area == num(v[2]) && sp.qint == num(v[3])), || format!("{}: space {} {:?} read as {:?}", name, sname, v, sp));
                    }
                }
                c.check("C18.results.tbl.spaces_all_read", d.spaces.len() == seen_spaces.len(), || format!("{}: {} space lines written, {} spaces read", name, seen_spaces.len(), d.spaces.len()));
                c.nontrivial(name.clone());
                c.sample(|| format!("{}: {} elements, {} spaces", name, d.elements.len(), d.spaces.len()));
            }
            if distinct && k >= n_kyg {
                let _ = std::fs::remove_file(&tmp_path);
            }
        });
    }
}
