"""Kani back end: run proof harnesses / function-contract proofs on the scratch copy of the real crate."""
import fcntl
import json
import os
import re
import time
from contextlib import contextmanager

from common import KANI_TARGET, Undecided, env_offline, run

KANI_FLAGS = ["-Z", "unstable-options", "-Z", "function-contracts", "-Z", "stubbing"]


def _env():
    e = env_offline({"CARGO_TARGET_DIR": KANI_TARGET})
    e.pop("RUSTFLAGS", None)
    return e


@contextmanager
def kani_lock():
    """cargo-kani keeps one set of goto binaries per crate in the shared target directory; two checks working on
    different scratch copies would overwrite each other's files while CBMC reads them. One cargo-kani at a time
    (each invocation already runs its harnesses in parallel)."""
    os.makedirs(KANI_TARGET, exist_ok=True)
    f = open(os.path.join(KANI_TARGET, ".verif-kani.lock"), "w")
    fcntl.flock(f, fcntl.LOCK_EX)
    try:
        yield
    finally:
        fcntl.flock(f, fcntl.LOCK_UN)
        f.close()


def run_harnesses(scratch, package, harnesses, timeout_s, jobs, log, extra=None):
    """Run the named harnesses (exact names as suffix match on pretty_name). Returns {name: result}.

    result = {status: success|failed|timeout|undecided, failed: [..], checks, cover_sat, cover_total, secs, solver_s}
    """
    if not harnesses:
        return {}
    out_json = os.path.join(scratch.base, f"kani-{package}.json")
    if os.path.exists(out_json):
        os.remove(out_json)
    cmd = ["cargo", "kani", "-p", package] + KANI_FLAGS + [
        "--harness-timeout", f"{int(timeout_s)}s", "-j", str(jobs), "--output-format", "terse",
        "--export-json", out_json]
    for h in harnesses:
        cmd += ["--harness", h]
    if extra:
        cmd += extra
    log("kani: " + " ".join(cmd))
    # overall guard: all harnesses could run one after the other in the worst case
    overall = 240 + timeout_s * (1 + (len(harnesses) - 1) // max(1, jobs)) + 60
    with kani_lock():
        rc, out, secs, timed_out = run(cmd, cwd=scratch.path, env=_env(), timeout=overall)
    with open(os.path.join(scratch.base, f"kani-{package}.log"), "w") as f:
        f.write(out)
    results = {}
    if "error: could not compile" in out or "error[E" in out:
        errs = "\n".join(l for l in out.split("\n") if l.startswith("error"))[:2000]
        raise Undecided("scratch copy does not compile under cargo kani (injection or repo change):\n" + errs)
    data = None
    if os.path.exists(out_json):
        try:
            data = json.load(open(out_json))
        except Exception:
            data = None
    if data is None:
        raise Undecided("kani produced no JSON result (rc=%s, timed_out=%s)\n%s" % (rc, timed_out, out[-2000:]))
    solver = {}
    for c in data.get("cbmc", []):
        st = c.get("cbmc_stats") or {}
        solver[c["harness_id"]] = (st.get("runtime_decision_procedure_s") or 0.0) + (st.get("runtime_symex_s") or 0.0)
    stubs = re.findall(r"- Stub: (\S+)", out)
    by_id = {r["harness_id"]: r for r in data.get("verification_results", {}).get("results", [])}
    for h in harnesses:
        full = [k for k in by_id if k == h or k.endswith("::" + h)]
        if len(full) != 1:
            # not executed: either timeout handling dropped it or the harness does not exist
            if re.search(r"no harnesses matched|No proof harnesses", out):
                raise Undecided(f"kani found no harness named {h}")
            results[h] = {"status": "timeout" if ("timed out" in out or timed_out) else "undecided",
                          "failed": [], "checks": 0, "secs": timeout_s, "detail": "harness not in result set"}
            continue
        r = by_id[full[0]]
        checks = r.get("checks", [])
        failed = []
        undecided_reason = None
        cover_total = cover_sat = 0
        n_assert = 0
        ignored = 0
        for c in checks:
            cat = c.get("category", "")
            st = c.get("status", "")
            if cat == "cover":
                cover_total += 1
                if st.lower() in ("satisfied", "success"):
                    cover_sat += 1
                continue
            if st == "Failure":
                desc = c.get("description", "")
                if desc.startswith("NaN on ") or desc.startswith("arithmetic overflow on floating-point"):
                    # CBMC's optional float diagnostics: producing NaN/inf is not a panic in Rust
                    ignored += 1
                    continue
                if cat in ("unwind", "unwinding") or "unwinding assertion" in desc:
                    undecided_reason = "unwinding assertion failed: bound too small for this input (tool limit)"
                elif cat == "unsupported_construct" or "not currently supported by Kani" in desc:
                    undecided_reason = "unsupported construct reachable: " + desc[:120]
                else:
                    failed.append({"description": desc, "category": cat, "function": c.get("function"),
                                   "location": c.get("location")})
            elif st in ("Undetermined",):
                undecided_reason = undecided_reason or "undetermined check (upstream failure)"
            if cat == "assertion" and st == "Success":
                n_assert += 1
        status = r.get("status")
        res = {"failed": failed, "checks": len(checks), "asserts_ok": n_assert, "cover_sat": cover_sat,
               "cover_total": cover_total, "secs": r.get("duration_ms", 0) / 1000.0,
               "solver_s": round(solver.get(full[0], 0.0), 3), "stubs": stubs}
        if failed:
            res["status"] = "failed"
        elif undecided_reason:
            res["status"] = "undecided"
            res["detail"] = undecided_reason
        elif status == "Success" or (ignored and n_assert > 0 and not timed_out):
            # (overall "Failure" whose only failing checks are the ignored float diagnostics: every assertion held)
            if cover_total and cover_sat < cover_total:
                res["status"] = "undecided"
                res["detail"] = "vacuity guard: a cover! after the assumptions is unsatisfiable"
            else:
                res["status"] = "success"
        else:
            # failure without a failed check = timeout / oom / cbmc crash
            res["status"] = "timeout" if re.search(r"timed out|Timeout|SIGKILL|out of memory", out) else "undecided"
            res["detail"] = "kani status %s without a failed check" % status
        results[h] = res
    return results


def concrete_playback(scratch, package, harness, timeout_s, log):
    """Ask Kani for a concrete counterexample of `harness`, add it as a unit test to the scratch copy of the
    contract file (inplace) and run it natively against the real code with `cargo kani playback`.

    Returns {values: [...], test: name, reproduced: bool|None, output: str}
    """
    cmd = ["cargo", "kani", "-p", package] + KANI_FLAGS + ["-Z", "concrete-playback", "--concrete-playback=inplace",
                                                          "--harness-timeout", f"{int(timeout_s)}s",
                                                          "--harness", harness]
    with kani_lock():
        rc, out, secs, to = run(cmd, cwd=scratch.path, env=_env(), timeout=timeout_s + 300)
    test = None
    values = []
    check_desc = None
    # find the generated tests in the scratch copy of the contract files (skip those generated for cover!)
    cdir = os.path.join(scratch.path, ".verif_contracts")
    rx = re.compile(r"/// Check for `(\w+)`: ([^\n]*)\n(?:\s*\n)*\s*#\[test\]\s*fn (kani_concrete_playback_" + re.escape(harness)
                    + r"_\d+)\(\) \{(.*?)kani::concrete_playback_run", re.S)
    for fn in sorted(os.listdir(cdir)):
        txt = open(os.path.join(cdir, fn)).read()
        for mm in rx.finditer(txt):
            if mm.group(1) == "cover":
                continue
            test = mm.group(3)
            check_desc = mm.group(2).strip()
            values = [v.strip()[2:].strip() for v in mm.group(4).split("\n") if v.strip().startswith("//")]
            break
        if test:
            break
    if not test:
        return {"values": [], "test": None, "reproduced": None,
                "output": "kani produced no concrete counterexample\n" + out[-1500:]}
    cmd = ["cargo", "kani", "playback", "-Z", "concrete-playback", "-p", package, "--", test, "--nocapture"]
    with kani_lock():
        rc, out2, secs2, to2 = run(cmd, cwd=scratch.path, env=_env(), timeout=900)
    reproduced = None
    if re.search(r"test result: FAILED|panicked at", out2):
        reproduced = True
    elif re.search(r"test result: ok\. 1 passed", out2):
        reproduced = False
    tail = "\n".join(l for l in out2.split("\n") if not l.lstrip().startswith(("warning", "|", "=", "-->", "Compiling")))
    keep = [l for l in tail.split("\n") if re.search(r"panicked at|^test |test result|^C\d\d|assert", l)]
    return {"values": values, "test": test, "for_check": check_desc, "reproduced": reproduced, "output": "\n".join(keep)[-2000:]}
