"""Which obligations decide which property, by which back end, at which tier.

backend kani   : name = harness fn name; `bounded` (text) when the harness fixes a shape / unwind bound
backend native : name = obligation id; test = full path of the #[test] in the lib test binary
backend verus  : name = unit id (see run_verus.UNITS)
"""

TRUSTED_BASE = [
    "rustc; Kani 0.68 MIR->GOTO translation; CBMC 6.11 bit-precise IEEE-754 semantics and CaDiCaL/kissat",
    "Verus 0.2026.09.13 + Z3 and the vstd specifications of Vec/Option/usize arithmetic",
    "Kani models of floorf/roundf (exact); transcendental intrinsics (sin, cos, ln, acos, powf) are nondeterministic over-approximations: nothing numeric is claimed through them",
    "the scratch-copy injector (adds lines only; sha256 of every touched repo file recorded) and the Verus extractor (verbatim slices; diff-checked)",
    "unverified dependencies: nalgebra, uuid, std collections (BTreeMap, HashSet, HashMap), serde",
    "usize is 64-bit in all back ends; termination is claimed only where Verus proves a decreases clause",
]

ASSUMPTIONS = [
    "every kani::assume in a harness is a precondition of the contract (input ranges of the property's quantifier) and is guarded by a kani::cover! that must be SATISFIED",
    "bounded (native) obligations are exhaustive only within their stated scope and are never counted in obligations/discharged",
]

K = "kani"
N = "native"
V = "verus"


def kani(name, props, clause, fn, tier="quick", timeout=600, bounded=None, pkg="bemodel", timeout_thorough=None):
    d = {"backend": K, "name": name, "props": props, "clause": clause, "fn": fn, "tier": tier, "timeout": timeout,
         "pkg": pkg}
    if bounded:
        d["bounded"] = bounded
    if timeout_thorough:
        d["timeout_thorough"] = timeout_thorough
    return d


def native(name, props, clause, fn, test, tier="quick", timeout=240, pkg="bemodel", crash=False, scope=None,
           timeout_thorough=1500, bins=False, sampled=None):
    # sampled: None = the stated scope is enumerated completely; "quick" = the quick tier runs a slice of a finite
    # space that the thorough tier enumerates completely; "always" = a sample of an unbounded space in both tiers
    return {"bins": bins, "sampled": sampled, "backend": N, "name": name, "props": props, "clause": clause, "fn": fn, "test": test, "tier": tier,
            "timeout": timeout, "timeout_thorough": timeout_thorough, "pkg": pkg, "crash_is_violation": crash,
            "scope": scope}


def verus(name, props, clause, fn, tier="quick"):
    return {"backend": V, "name": name, "props": props, "clause": clause, "fn": fn, "tier": tier}


ROOT = "verif_root::"
EN = "energy::verif_energy::n::"
RN = "verif_root::n::"
TR = "energy::transmittance::verif_transmittance::n::"
CV = "convert::from_ctehexml::verif_convert::n::"
RY = "energy::raytracing::ray::verif_ray::n::"
BV = "energy::raytracing::bvh::verif_bvh::n::"

OBLIGATIONS = [
    # ---- C11 classifiers (complete proofs over the full float domain) --------------------------------
    kani("c11_tilt_mod360", ["C11"], "C11.tilt.mod360", "bemodel::Tilt::from(f32)"),
    kani("c11_orient_mod360", ["C11", "C10"], "C11.orient.mod360", "bemodel::Orientation::from(f32)"),
    kani("c11_tilt_sectors", ["C11", "C06"], "C11.tilt.sectors", "bemodel::Tilt::from(f32)"),
    kani("c11_tilt_parser_model", ["C11"], "C11.tilt.parser_model", "hulc::bdl::Wall::position / bemodel::Tilt::from(f32)"),
    kani("c11_orient_sectors", ["C11", "C10"], "C11.orient.sectors", "bemodel::Orientation::from(f32)"),
    kani("c11_normalize_range", ["C11"], "C11.normalize", "bemodel::utils::normalize"),
    kani("c10_orientation_of_wall", ["C10", "C11"], "C10.wall", "Orientation::from(&Wall) / Tilt::from(&Wall)"),
    kani("c11_poly_degenerate", ["C11"], "C11.poly.degenerate", "Polygon::area / perimeter", bounded="0 and 1 vertex"),
    kani("c13_aabb_slab_exact", ["C13"], "C13.aabb.slab.exact", "AABB::intersects", bounded="integer boxes / origins in [-20,20], direction components in {-1,-0.0,+0.0,1}: all products exact", timeout=900),
    kani("c13_pip_triangle_3", ["C13", "C12"], "C13.pip.triangle", "bemodel::energy::raytracing::ray::point_in_poly", bounded="triangles with integer corners in [-3,3]^2, integer points off the side lines (all of them)", timeout=600),
    kani("c13_pip_triangle_5", ["C13", "C12"], "C13.pip.triangle", "bemodel::energy::raytracing::ray::point_in_poly", tier="thorough", bounded="triangles with integer corners in [-5,5]^2, integer points off the side lines (all of them)", timeout=1800),
    # ---- C06 leaves -----------------------------------------------------------------------------------
    kani("c06_fround2_contract", ["C06", "C07", "C08"], "C06.fround2", "bemodel::utils::fround2 (kani::requires/ensures, proof_for_contract)", timeout=600),
    kani("c06_fround3_contract", ["C06"], "C06.fround3", "bemodel::utils::fround3 (kani::requires/ensures, proof_for_contract)", tier="thorough", timeout=1800),
    kani("c06_fround2_monotone", ["C06"], "C06.fround2.monotone", "bemodel::utils::fround2", tier="thorough", timeout=1800),
    kani("c06_uext_value_p0", ["C06"], "C06.uext.value", "Wall::u_value_exterior (fround2 replaced by its verified contract; R in binade piece 0 of 11: R < 0.25, thorough tier only)", tier="thorough", timeout=1800),
    kani("c06_uext_value_p1", ["C06"], "C06.uext.value", "Wall::u_value_exterior (fround2 replaced by its verified contract; R in binade piece 1 of 11: R < 0.25, thorough tier only)", tier="thorough", timeout=1800),
    kani("c06_uext_value_p2", ["C06"], "C06.uext.value", "Wall::u_value_exterior (fround2 replaced by its verified contract; R in binade piece 2 of 11)", timeout=900),
    kani("c06_uext_value_p3", ["C06"], "C06.uext.value", "Wall::u_value_exterior (fround2 replaced by its verified contract; R in binade piece 3 of 11)", timeout=900),
    kani("c06_uext_value_p4", ["C06"], "C06.uext.value", "Wall::u_value_exterior (fround2 replaced by its verified contract; R in binade piece 4 of 11)", timeout=900),
    kani("c06_uext_value_p5", ["C06"], "C06.uext.value", "Wall::u_value_exterior (fround2 replaced by its verified contract; R in binade piece 5 of 11)", timeout=900),
    kani("c06_uext_value_p6", ["C06"], "C06.uext.value", "Wall::u_value_exterior (fround2 replaced by its verified contract; R in binade piece 6 of 11)", timeout=900),
    kani("c06_uext_value_p7", ["C06"], "C06.uext.value", "Wall::u_value_exterior (fround2 replaced by its verified contract; R in binade piece 7 of 11)", timeout=900),
    kani("c06_uext_value_p8", ["C06"], "C06.uext.value", "Wall::u_value_exterior (fround2 replaced by its verified contract; R in binade piece 8 of 11)", timeout=900),
    kani("c06_uext_value_p9", ["C06"], "C06.uext.value", "Wall::u_value_exterior (fround2 replaced by its verified contract; R in binade piece 9 of 11)", timeout=900),
    kani("c06_uext_value_p10", ["C06"], "C06.uext.value", "Wall::u_value_exterior (fround2 replaced by its verified contract; R in binade piece 10 of 11)", timeout=900),
    kani("c06_uext_none", ["C06"], "C06.uext.none", "Wall::u_value_exterior"),
    kani("c06_gnd_notburied", ["C06"], "C06.gnd.notburied", "Wall::u_value_gnd_wall / u_value_gnd_top"),
    # ---- C07 ------------------------------------------------------------------------------------------
    kani("c07_wincons_u", ["C07"], "C07.u.none", "WinCons::u_value", timeout=600, bounded="ConsDb with 1 glass + 1 frame; all scalars and both links symbolic"),
    kani("c07_wincons_g", ["C07"], "C07.g", "WinCons::g_glwi / g_glshwi", timeout=600, bounded="ConsDb with 1 glass + 1 frame; all scalars and the glass link symbolic"),
    kani("c08_k_no_elements", ["C08"], "C08.empty", "KData::from(&EnergyProps)", bounded="element maps empty; every global scalar symbolic"),
    # ---- C09 ------------------------------------------------------------------------------------------
    kani("c09_n50_no_walls", ["C09"], "C09.corner", "N50Data::from(&EnergyProps)", bounded="element maps empty; every global scalar symbolic"),
    # ---- C13 ------------------------------------------------------------------------------------------
    kani("c13_aabb_join", ["C13"], "C13.aabb.join", "AABB::join / AABB::default"),
    verus("bvh_builder", ["C13", "C14"], "C13.builder", "BVH::generate_node_list + BVH::partition_elements_by_centroid"),
    verus("bvh_traversal", ["C13", "C12"], "C13.traversal", "PreorderIter::next (bemodel/src/energy/raytracing/bvh.rs, verbatim) + ghost theorem over its contract: the whole traversal visits exactly the unpruned nodes"),
    # ---- C17 / C03 (convert) -------------------------------------------------------------------------
    kani("c17_day_of_year", ["C17"], "C17.doy", "convert::from_ctehexml::day_of_year"),
    kani("c03_azimuth_convention", ["C03"], "C03.azimuth", "convert::orientation_bdl_to_52016"),
    kani("c03_mirror_y_0", ["C03", "C19"], "C03.mirror.empty", "hulc::bdl::Polygon::mirror_y", pkg="hulc", bounded="polygon without vertices", timeout=600),
    kani("c03_edge_vertices_0", ["C03", "C19"], "C03.edge_vertices", "hulc::bdl::Polygon::edge_vertices", pkg="hulc", bounded="polygon without vertices, 9 vertex names", timeout=600),
    kani("c03_edge_vertices_4", ["C03", "C19"], "C03.edge_vertices", "hulc::bdl::Polygon::edge_vertices", pkg="hulc", bounded="polygon of 4 vertices (symbolic coordinates), 9 vertex names", timeout=600),
    kani("c03_mirror_y_1", ["C03"], "C03.mirror", "hulc::bdl::Polygon::mirror_y", pkg="hulc", bounded="polygon of 1 vertices, symbolic coordinates", timeout=600),
    kani("c03_mirror_y_3", ["C03"], "C03.mirror", "hulc::bdl::Polygon::mirror_y", pkg="hulc", bounded="polygon of 3 vertices, symbolic coordinates", timeout=600),
    kani("c03_mirror_y_4", ["C03"], "C03.mirror", "hulc::bdl::Polygon::mirror_y", pkg="hulc", bounded="polygon of 4 vertices, symbolic coordinates", timeout=600),
    kani("c03_mirror_y_5", ["C03"], "C03.mirror", "hulc::bdl::Polygon::mirror_y", pkg="hulc", bounded="polygon of 5 vertices, symbolic coordinates", timeout=600),
    # ---- C20 (climate crate) -------------------------------------------------------------------------
    kani("c20_nday_from_md", ["C20"], "C20.nday", "climate::nday_from_md", pkg="climate"),
    kani("c20_hourangle_range", ["C20"], "C20.hourangle", "climate::solar::hourangle_from_tsol", pkg="climate"),
    kani("c20_sol_surf_wrap", ["C20"], "C20.wrap", "climate::solar::azimuth_sol_surf / tilt_sol_surf", pkg="climate"),
    kani("c20_idir_nonneg", ["C20"], "C20.idir.nonneg", "climate::solar::I_dir", pkg="climate"),

    # ======================= bounded stand-ins (native exhaustive small scope) ==========================
    native("n_c08_kdata_walls", ["C08"], "C08.kdata.walls", "KData::from(&EnergyProps)", EN + "n_c08_kdata_walls"),
    native("n_c08_kdata_windows", ["C08"], "C08.kdata.windows", "KData::from(&EnergyProps)", EN + "n_c08_kdata_windows"),
    native("n_c08_kdata_bridges", ["C08"], "C08.kdata.bridges", "KData::from(&EnergyProps)", EN + "n_c08_kdata_bridges"),
    kani("c04_skip_default_pairs", ["C04"], "C04.skip", "bemodel::utils::{multiplier_is_1, default_1, is_true, default_true, is_default} (the skip_serializing_if / default pairs of Space, ThermalBridge, Meta)", timeout=600),
    native("n_c04_roundtrip", ["C04"], "C04.roundtrip", "Model::as_json / Model::from_json (serde derive attributes of every model type)", RN + "n_c04_roundtrip"),
    native("n_c04_edited_models", ["C04"], "C04.edited", "Model::as_json / Model::from_json on models with one rewritten JSON value", RN + "n_c04_edited_models"),
    native("n_c04_shipped_models", ["C04"], "C04.shipped", "Model::from_json / Model::as_json on bemodel/tests/data/*.json", RN + "n_c04_shipped_models"),
    native("n_c11_poly", ["C11"], "C11.poly", "Polygon::area / Polygon::perimeter", RN + "n_c11_poly"),
    native("n_c11_poly_large", ["C11"], "C11.poly.large", "Polygon::area / Polygon::perimeter", RN + "n_c11_poly_large"),
    native("n_c11_height_net", ["C11", "C09"], "C11.height_net", "Space::height_net / EnergyProps::from (vol_env_net)", RN + "n_c11_height_net"),
    native("n_c11_props_model", ["C11", "C08", "C09", "C10"], "C11.props", "EnergyProps::from(&Model) / Model::global_ventilation_rate / Space::area / Space::height_net / Wall::area_net", RN + "n_c11_props_model"),
    native("n_c11_scaling", ["C11"], "C11.scaling", "EnergyProps::from(&Model)", RN + "n_c11_scaling"),
    native("n_c15_check", ["C15"], "C15.check", "check(&Model) / EnergyIndicators::compute", RN + "n_c15_check"),
    native("n_c15_made_of", ["C15"], "C15.made_of", "check(&Model) / EnergyIndicators::compute on models whose constructions are themselves incomplete", RN + "n_c15_made_of"),
    native("n_c16_purge", ["C16"], "C16.purge", "purge_unused(&mut Model)", RN + "n_c16_purge"),
    native("n_c13_bvh_equiv", ["C13", "C12"], "C13.bvh.equiv", "BVH::build / BVH::intersects / build_from_node_list / PreorderIter", BV + "n_c13_bvh_equiv", crash=True, timeout=120),
    native("n_c13_bvh_many", ["C13", "C14"], "C13.bvh.many", "BVH::build / partition_elements_by_centroid", BV + "n_c13_bvh_many", crash=True, timeout=120),
    native("n_c13_partition", ["C13"], "C13.partition", "BVH::partition_elements_by_centroid (the plane step's contract P' is assumed by the Verus unit; P is proved there)", BV + "n_c13_partition"),
    native("n_c13_partition_identical", ["C13"], "C13.partition.identical", "BVH::partition_elements_by_centroid (the plane step's contract P' is assumed by the Verus unit; P is proved there)", BV + "n_c13_partition_identical"),
    native("n_c13_point_in_poly", ["C13", "C12"], "C13.pip", "raytracing::ray::point_in_poly", RY + "n_c13_point_in_poly"),
    native("n_c13_ray_polygon", ["C13", "C12"], "C13.ray.poly", "Ray::intersects_with_data", RY + "n_c13_ray_polygon"),
    native("n_c13_ray_posed", ["C13"], "C13.ray.posed", "impl Intersectable for WallGeom / WallGeom::to_global_coords_matrix", EN + "n_c13_ray_posed"),
    native("n_c13_occluder_equiv", ["C13", "C12"], "C13.occluder", "Model::collect_occluders / impl Intersectable for &Occluder", EN + "n_c13_occluder_equiv"),
    native("n_c13_geom_aabb", ["C13"], "C13.geom.aabb", "impl Bounded for WallGeom (aabb)", EN + "n_c13_geom_aabb"),
    native("n_c13_setback", ["C13", "C12"], "C13.setback", "Window::shades_for_setback", EN + "n_c13_setback"),
    native("n_c13_aabb_slab", ["C13"], "C13.aabb.slab", "AABB::intersects", EN + "n_c13_aabb_slab"),
    native("n_c12_sunlit", ["C12", "C14"], "C12.sunlit", "Model::sunlit_fraction / collect_occluders / ray_origins_for_window", EN + "n_c12_sunlit"),
    native("n_c12_turned_scene", ["C12"], "C12.turned", "Model::sunlit_fraction / collect_occluders / ray_origins_for_window on scenes oblique to the axes", EN + "n_c12_turned_scene"),
    native("n_c12_ray_origins", ["C12"], "C12.ray_origins", "Model::ray_origins_for_window", EN + "n_c12_ray_origins"),
    native("n_c12_occluder_set", ["C12"], "C12.occluder_set", "Model::collect_occluders / windows_setback_shades", EN + "n_c12_occluder_set"),
    native("n_c12_unobstructed_orientations", ["C12"], "C12.fshobst.orientations", "Model::compute_fshobst / ray_dir_to_sun / WallGeom::normal", EN + "n_c12_unobstructed_orientations"),
    native("n_c12_reveals", ["C12"], "C12.reveals", "Model::sunlit_fraction (own / foreign reveal filter) / windows_setback_shades", EN + "n_c12_reveals"),
    native("n_c12_fshobst", ["C12"], "C12.fshobst", "Model::compute_fshobst", EN + "n_c12_fshobst"),
    native("n_c17_week_expand", ["C17"], "C17.week.expand", "ScheduleWeek::to_day_sch", RN + "n_c17_week_expand"),
    native("n_c17_year_expand", ["C17"], "C17.year.expand", "SchedulesDb::get_year_as_day_sch / year_values", RN + "n_c17_year_expand"),
    native("n_c17_occupancy", ["C17"], "C17.occupancy", "EnergyProps::from(&Model) (occ_spaces_hours_in_use, occ_spaces_average_load, loads_avg)", RN + "n_c17_occupancy"),
    native("n_c02_shipped_closed", ["C02"], "C02.shipped", "hulc::ctehexml::parse_with_catalog / bdl::Data::new_from_path + Model::try_from (IdMaps, cons_from_bdl, spaces/walls/windows/schedules/loads/thermostats_from_bdl) + checks::check", CV + "n_c02_shipped_closed"),
    native("n_c02_protections", ["C02"], "C02.protections", "windows_and_shades_from_bdl (ids of the overhang / fin shades generated from window attributes)", CV + "n_c02_protections"),
    native("n_c02_value_edits", ["C02"], "C02.value_edits", "hulc::ctehexml::parse_with_catalog + Model::try_from (cons_from_bdl purge of unused glazings / frames / materials) on projects with one rewritten number", CV + "n_c02_value_edits", timeout=900, timeout_thorough=6000, sampled="quick"),
    native("n_c02_broken_refs", ["C02"], "C02.broken", "hulc::ctehexml::parse_with_catalog + Model::try_from on projects with one dangling name", CV + "n_c02_broken_refs"),
    native("n_c02_case_twins", ["C02"], "C02.case_twins", "cons_from_bdl (the lists of constructions in use) on projects with constructions whose names differ only in case", CV + "n_c02_case_twins"),
    native("n_c02_broken_sites", ["C02"], "C02.broken_sites", "hulc::ctehexml::parse_with_catalog + Model::try_from on projects with one written reference renamed", CV + "n_c02_broken_sites", timeout=900),
    native("n_c05_convert_repeat", ["C05"], "C05.convert", "hulc::ctehexml::parse_with_catalog + Model::try_from + Model::as_json (uuid_from_obj ids, collection order)", CV + "n_c05_convert_repeat", timeout=600, sampled="always"),
    native("n_c05_degenerate_repeat", ["C05"], "C05.degenerate", "Model::try_from + as_json on projects with one degenerate element (a function of the project text only)", CV + "n_c05_degenerate_repeat", timeout=900),
    native("n_c05_ids_local", ["C05"], "C05.ids", "bemodel::utils::uuid_from_obj / IdMaps::new (ids from the element's own definition)", CV + "n_c05_ids_local", timeout=600),
    native("n_c05_ids_namesake", ["C05"], "C05.namesake", "IdMaps::new (one name -> id table per element kind) on projects where elements of different kinds share a name", CV + "n_c05_ids_namesake", timeout=900),
    native("n_c05_reference_models", ["C05"], "C05.reference", "hulc::ctehexml::parse_with_catalog + Model::try_from against bemodel/tests/data/*.json", CV + "n_c05_reference_models"),
    native("n_c05_indicators_history", ["C05"], "C05.indicators", "Model::energy_indicators (global climate / radiation tables behind Mutex / lazy statics)", CV + "n_c05_indicators_history", timeout=900, sampled="always"),
    native("n_c01_export_tool", ["C01"], "C01.export", "hulc2model::cli::cli_main (the built hulc2model binary), thor main (the built thor binary) against hulc2model::collect_hulc_data / Model::try_from", "verif_hulc2model::n::n_c01_export_tool", pkg="hulc2model", bins=True, timeout=900),
    native("n_c01_edited_projects", ["C01"], "C01.edited", "hulc2model::collect_hulc_data + Model::as_json / Model::from_json (what the tool prints loads as the library's model) on projects with one rewritten number", "verif_hulc2model::n::n_c01_edited_projects", pkg="hulc2model", timeout=900, timeout_thorough=6000, sampled="quick"),
    native("n_c19_extra_files", ["C19"], "C19.extra_files", "hulc2model::collect_hulc_data -> fix_ecdata_from_extra (hulc::kyg::parse_from_path, hulc::tbl::parse)", "verif_hulc2model::n::n_c19_extra_files", pkg="hulc2model", timeout=900, timeout_thorough=6000, sampled="quick"),
    native("n_c18_blocks", ["C18"], "C18.blocks", "hulc::bdl::build_blocks (sanitize_lider_data, clean_lines, BdlBlock::from_str, parse_attributes, AttrMap::insert, extract_namesvec, extract_f32vec)", "bdl::verif_hulc_bdl::n::n_c18_blocks", pkg="hulc", timeout=900, timeout_thorough=6000, sampled="always"),
    native("n_c18_relayout_real", ["C18"], "C18.relayout", "hulc::bdl::Data::new (block parser + typed elements: Space, Wall, Window, Polygon, Shading, ThermalBridge, Floor, Material, WallCons, WinCons, Glass, Frame, schedules)", "bdl::verif_hulc_bdl::n::n_c18_relayout_real", pkg="hulc", timeout=900, timeout_thorough=6000),
    native("n_c18_typed", ["C18"], "C18.typed", "hulc::bdl::Data::new: TryFrom<BdlBlock> for Window / Wall / Space / Polygon / Material / WallCons / Glass / Frame / WinCons / Shading / ThermalBridge", "bdl::verif_hulc_bdl::n::n_c18_typed", pkg="hulc"),
    native("n_c18_tbl_layout", ["C18"], "C18.tbl", "hulc::tbl::parse", "bdl::verif_hulc_bdl::n::n_c18_tbl_layout", pkg="hulc"),
    native("n_c18_results_values", ["C18"], "C18.results", "hulc::kyg::parse, hulc::tbl::parse (Element::from_str)", "bdl::verif_hulc_bdl::n::n_c18_results_values", pkg="hulc"),
    native("n_c18_kyg_layout", ["C18"], "C18.kyg", "hulc::kyg::parse", "bdl::verif_hulc_bdl::n::n_c18_kyg_layout", pkg="hulc"),
    kani("c19_day_of_year_total", ["C19"], "C19.day_of_year.total", "bemodel::convert::from_ctehexml::day_of_year for every (u32, u32)", timeout=600),
    kani("c19_angle_helpers_total", ["C19", "C14"], "C19.angles.total", "bemodel::utils::normalize, convert::normalize_azimuth, orientation_bdl_to_52016, Tilt::from(f32), Orientation::from(f32) for every f32 incl. inf / NaN", timeout=600),
    native("n_c19_projects", ["C19"], "C19.projects", "hulc::ctehexml::parse_with_catalog (roxmltree, bdl::Data::new, block / attribute parsers, geometry) + Model::try_from", CV + "n_c19_projects", timeout=900, timeout_thorough=14000, sampled="quick"),
    native("n_c19_legacy", ["C19"], "C19.legacy", "hulc::bdl::Data::new + Model::try_from on legacy LIDER files", CV + "n_c19_legacy", timeout=900, timeout_thorough=14000, sampled="quick"),
    native("n_c19_results", ["C19"], "C19.results", "hulc::kyg::parse, hulc::tbl::parse", CV + "n_c19_results", timeout=600, timeout_thorough=3000, sampled="quick"),
    native("n_c03_conversion", ["C03"], "C03.conversion", "hulc::ctehexml::parse_with_catalog + Model::try_from (wall_geometry, windows_and_shades_from_bdl, shades_from_bdl, compute_wall_angle_with_space_north, Polygon::edge_vertices / edge_normal_to_y / mirror_y / rotate)", CV + "n_c03_conversion"),
    native("n_c17_convert_year", ["C17"], "C17.convert.year", "convert::schedules_from_bdl / day_of_year", CV + "n_c17_convert_year"),
    native("n_c17_convert_week_day", ["C17"], "C17.convert.week", "convert::schedules_from_bdl", CV + "n_c17_convert_week_day"),
    native("n_c14_seed_closed", ["C14"], "C14.seed", "Model::energy_indicators / EnergyIndicators::as_json", RN + "n_c14_seed_closed"),
    native("n_c14_closed_family", ["C14"], "C14.closed_family", "Model::energy_indicators + EnergyIndicators::as_json / serde load-back on closed models of every size", RN + "n_c14_closed_family"),
    native("n_c14_single_edits", ["C14"], "C14.edit1", "Model::energy_indicators (EnergyProps::from, compute_fshobst, KData, N50Data, QSolJulData, check)", RN + "n_c14_single_edits", crash=True, timeout=300),
    native("n_c14_triple_edits", ["C14"], "C14.edit3", "Model::energy_indicators", RN + "n_c14_triple_edits", crash=True, tier="thorough", timeout_thorough=2400),
    native("n_c14_double_edits", ["C14"], "C14.edit2", "Model::energy_indicators", RN + "n_c14_double_edits", crash=True, timeout=600),
    native("n_c06_resistance", ["C06"], "C06.resistance", "WallCons::resistance", TR + "n_c06_resistance"),
    native("n_c06_uint_value", ["C06"], "C06.uint", "Wall::u_value_interior_cond_uncond", TR + "n_c06_uint_value"),
    native("n_c06_uext_mono", ["C06"], "C06.uext.mono", "Wall::u_value_exterior", TR + "n_c06_uext_mono"),
    native("n_c06_dispatch", ["C06"], "C06.dispatch", "Wall::u_value(&Model) / Space::ua_of_external_and_ground_surfaces / Model::global_ventilation_rate", TR + "n_c06_dispatch"),
    native("n_c06_ground", ["C06", "C14"], "C06.ground", "Wall::u_value (GROUND) / u_value_gnd_slab / u_value_gnd_wall / Space::slab_char_dim / slab_d_t / slab_psi_gnd_ext", TR + "n_c06_ground"),
    native("n_c07_wincons_value", ["C07"], "C07.u.value", "WinCons::u_value / g_glwi / g_glshwi", TR + "n_c07_wincons_value"),
    native("n_c07_defaults", ["C07", "C10", "C08"], "C07.defaults", "EnergyProps::from(&Model) (WinConsProps) / KData::from / QSolJulData::from", TR + "n_c07_defaults"),
    native("n_c20_sun_position", ["C20"], "C20.sunpos", "climate::solar::altitude_sol_from_data / azimuth_sol_from_data / sun_position", "verif_climate::n::n_c20_sun_position", pkg="climate"),
    native("n_c20_sun_prime_vertical", ["C20"], "C20.sunpos.prime_vertical", "climate::solar::sun_position, azimuth_sol_from_data (asin argument at the +-1 ends)", "verif_climate::n::n_c20_sun_prime_vertical", pkg="climate"),
    native("n_c20_incidence", ["C20"], "C20.incidence", "climate::solar::angle_sol_surf", "verif_climate::n::n_c20_incidence", pkg="climate"),
    native("n_c20_radiation_identities", ["C20"], "C20.radiation", "climate::radiation_for_surface", "verif_climate::n::n_c20_radiation_identities", pkg="climate"),
    native("n_c20_weather_table", ["C20"], "C20.weather_table", "climate::period_radiation_for_surface / nday_from_ymd / MONTHLYRADDATA", EN + "n_c20_weather_table"),
    native("n_c20_tables", ["C20"], "C20.tables", "climatedata::{JULYRADDATA, MONTHLYRADDATA, CLIMATEMETADATA, ClimateZone}", EN + "n_c20_tables"),
    native("n_c09_n50", ["C09"], "C09.n50", "N50Data::from(&EnergyProps)", EN + "n_c09_n50"),
    native("n_c10_qsoljul", ["C10"], "C10.qsoljul", "QSolJulData::from(&EnergyProps, &HashMap<Orientation,f32>)", EN + "n_c10_qsoljul"),
    native("n_c10_zone_and_class", ["C10"], "C10.zone", "EnergyIndicators::compute (zone table) / Orientation::from(&Wall)", EN + "n_c10_zone_and_class"),
    native("n_c10_july_table", ["C10", "C20"], "C10.table", "climatedata::total_radiation_in_july_by_orientation", EN + "n_c10_july_table"),
]

PROPERTIES = {
    "C18": {"level": "exploration", "rule": "C18.blocks: descriptions generated from the description number by a fixed LCG (200 quick / 2000 thorough - a sample of an unbounded space) x all 1152 layouts; C18.relayout / typed / results: every shipped file x every listed layout or rewrite (complete); a case is non-trivial when the parser returned data (distinct keys: description or file, size, layout / rewrite)"},
    "C01": {"level": "exploration", "rule": "C01.export: every shipped project directory and five hand-made variants of cubo x {default, --use-extra} x {hulc2model, thor -o} plus five directories without (convertible) project, enumerated completely; C01.edited: the tier's slice of lines (quick: every 16th line, offset by VERIF_SEED; thorough: every 2nd) x 4 values - a sample of the single-number edits in the quick tier; a case is non-trivial when a binary was run and compared with the library, or an edited project was converted and its document loaded back"},
    "C19": {"level": "fault_enumeration", "rule": "every shipped file x every line of the tier's slice (quick: every 8th / 20th / 4th / 6th line offset by VERIF_SEED; thorough: every line) x 11 kinds of single-line damage, enumerated by choice vector; an edit that does not apply to the line is skipped and not counted as non-trivial; distinct_nontrivial counts distinct (file kind, damage kind, outcome) classes, not cases"},
    "C05": {"level": "exploration", "rule": "every shipped project / model x the listed repetitions, twins and variants, enumerated completely; thread interleavings and process runs are sampled by running (16 threads, one fresh process per case), not explored; a case is non-trivial when a conversion or an indicator computation was compared"},
    "C02": {"level": "exploration", "rule": "every shipped project / legacy file; every referenced definition of every project renamed (two ways) or removed; every written link reference renamed; the first number of every line of the tier's slice (quick: every 6th line; thorough: every line) rewritten to 5 values; a case is non-trivial when the conversion ran to a model or to an error (distinct keys: project, block kind, outcome)"},
    "C04": {"level": "exploration"},
    "C03": {"level": "proof", "undecided_clauses": ["global positions within 1 cm, outward normals, shade corner points, rotation of the whole building: all run through Rotation3/Rotation2 (sin/cos) - no contract within reach decides them"]},
    "C06": {"level": "proof", "undecided_clauses": ["numeric value of the EN ISO 13370 slab and basement-wall formulas (ln): only panic-freedom and the not-buried identities are proved; values are checked by the bounded obligation C06.ground"]},
    "C07": {"level": "proof"},
    "C08": {"level": "exploration"},
    "C09": {"level": "exploration"},
    "C10": {"level": "exploration"},
    "C11": {"level": "proof"},
    "C12": {"level": "exploration", "undecided_clauses": ["the hour-by-hour value for partially obstructed windows (only the unobstructed and the hidden-at-every-hour extremes have an independent oracle)"]},
    "C13": {"level": "proof"},
    "C14": {"level": "exploration"},
    "C15": {"level": "exploration"},
    "C16": {"level": "exploration"},
    "C17": {"level": "proof"},
    "C20": {"level": "proof", "undecided_clauses": ["sun altitude/azimuth vs spherical astronomy, incidence angle, horizontal / downward-facing identities, table vs weather file: statements about sin/cos/asin/acos/powf on f32 - neither verifier has a theory for them"]},
}

NOT_APPLICABLE = [
]

_TB = "Trusted: rustc, Kani 0.68 + CBMC 6.11 (bit-precise IEEE-754), Verus + Z3, the line-adding injector / verbatim extractor, std collections, nalgebra, uuid. "
MANIFEST_TEXT = {
    "C18": {"technique": "contract on build_blocks / bdl::Data::new / kyg::parse / tbl::parse: (a) documents printed from generated abstract descriptions are recovered exactly (own printer, 1152 layouts), (b) re-printing a shipped file in another layout does not change the typed data, (c) every typed element agrees with the attribute values of its own block; evaluated on the real parsers (bounded stand-in: neither verifier reasons about str code)",
            "text": "Bounded: C18.blocks - 200 (thorough 2000) generated descriptions of 1..40 blocks of 28 kinds with 1..6 attributes (number, bare word, quoted text with blanks / commas / accents, name list, number list) printed in 1152 layouts (LF / CRLF, comments and blank lines, indentation and trailing blanks, attribute order, 4 number formats incl. 1.5E+03, quoted words, 3 list layouts incl. ')' on its own line, legacy preamble): name, type, parent and every attribute value of every block. C18.relayout - the BDL text of the 12 projects and 56 legacy files re-printed line by line in 12 (thorough 576) layouts gives the same bdl::Data. C18.typed - every window, wall, space + polygon, material, layer set, glazing, frame, window construction, rectangular shade and thermal bridge of the 68 files against the values written in its block, with the documented legacy defaults. C18.kyg / C18.tbl - either decimal separator, blanks, line ends. Not covered: blocks without attributes, other spacing around '=', the old KyG column layout.",
            "note": "The typed oracle reads the written values through the generic block parser, whose own recovery is what C18.blocks checks against the printed description; the printer emits only the layouts listed. " + _TB},
    "C01": {"technique": "contract on cli_main / thor main (exit status and standard output as postcondition), observed by running the real binaries built from the scratch copy and comparing with collect_hulc_data / Model::try_from called in-process (bounded stand-in; no verifier here models process I/O)",
            "text": "Bounded: the hulc2model binary on the 12 shipped project directories x {default, --use-extra} (also given with a trailing slash and as a relative path) exits 0 and its standard output is exactly one JSON document (serde_json rejects any other text around it) that loads as the model the library yields (compared with the library's model itself); on an empty directory, a directory without project, a missing one and two directories whose project the library rejects (file cut in half, broken reference) it exits non-zero and writes no JSON, as it does with --use-extra on a copy of cubo whose result file is damaged (the library fails there); four synthetic variants of cubo (zero-area ground slab with / without perimeter insulation, turned by 30 degrees with a shifted space, protections on every window) convert and export a document that loads; thor -o writes byte-identical library JSON for the 12 project files, into a new file and over an existing longer one. At the library level (C01.edited): every shipped project with the first number of one line rewritten to 0 / 1 / -7 / 100 (every 16th line; thorough every 2nd) that collect_hulc_data still converts gives a document (as_json) that loads back as that model. About 190 process runs per check; nothing is discharged deductively.",
            "note": "Besides the shipped projects only five hand-made variants of cubo are run; 'synthetic projects written by the verifier's BDL printer' of the property text are not generated at large. " + _TB},
    "C19": {"technique": "Kani proofs that Polygon::edge_vertices / mirror_y are total (no panic for any vertex name / an empty polygon) + contract 'returns Ok or Err, never panics, returns within 60 s' on parse_with_catalog + Model::try_from, bdl::Data::new, kyg::parse, tbl::parse and collect_hulc_data, evaluated on the real code over single-line damage of every shipped file (bounded stand-in; quick = a seeded slice, thorough = every line)",
            "text": "Bounded: 8 kinds of single-line damage (line deleted / duplicated, truncation, number -> text / 1e39 / -7, block removed, reference renamed) applied to every 8th line of the 12 .ctehexml projects, every 20th line of the 56 legacy .cte files, every 4th line of the KyG / tbl files and every 6th line of the result files of two projects read through collect_hulc_data (quick, offset by VERIF_SEED); thorough applies them to every line (2.7 million damaged files). Each crash site is its own obligation clause; the crash sites in the unfinished systems parser are listed as known findings, every other site is a violation.",
            "note": "A crash is identified by source file + normalised panic message, so two unwrap() sites of one file with the same message share an identity. " + _TB},
    "C02": {"technique": "contract on Model::try_from(&CtehexmlData) written from the statement (result is a closed model with unique ids, or Err - never a panic, never a silently dropped link), evaluated on the natively compiled real parser + converter over the shipped corpus and every single renamed / removed definition (bounded stand-in)",
            "text": "Bounded: every shipped project (12 .ctehexml, 56 legacy .cte; 62 convert) yields a model whose 15 id collections are duplicate- and nil-free and whose every listed link resolves (own oracle, plus Model::check silent); every referenced definition of every shipped project renamed (two ways) or removed, one at a time (7458 edited projects): the outcome is an error, or a closed model that has lost none of the optional links of the intact project; every place where a link of the statement's list is written renamed to an undefined name, one at a time (4 179 edited projects): an error whenever the block holding it is part of the intact model (its last definition, not replaced by a catalogue entry, link present in the intact model); the first number of every 6th line (thorough: every line, 229 000 projects) rewritten to -7 / 0 / 100 / 1 / 1e39, and fins / overhangs (incl. symmetric fins) written on every window: still closed - ids of generated shades included - or an error. No obligation is discharged deductively: the converter is String-keyed BTreeMap lookups over the parser's data and md5-of-Debug-text ids, beyond Kani (symbolic Data infeasible) and Verus (iterator / str code).",
            "note": "Exhaustive only over the shipped corpus and its single-definition edits; uniqueness of md5-derived ids is observed, not proved. " + _TB},
    "C04": {"technique": "Kani proof of the serde helper pairs (a value is skipped only if it is the value the default helper gives back, every f32 / bool) + contract on the pair Model::as_json / Model::from_json (from_json(as_json(m)) == m in every field, as_json idempotent, shipped files re-serialise to the same JSON value), enumerated on the real serde code over a model with every element kind and all single / pairs of 34 optional-or-defaulted field flips (bounded stand-in)",
            "text": "Bounded: a generated model carrying every collection, both material variants, overrides and the 'extra' block, with none / each one / each pair of 34 optional or defaulted fields flipped between absent-or-default and present-and-different (596 distinct models): loading back the serialised text gives a model equal in every field (Debug text of the whole model), and serialising again gives the identical text. The two extreme models with one value of their JSON text rewritten (every number -> 0 / 1 / negated, string -> \"\", flag flipped, key removed, list emptied: 758 models that still load) round-trip as well. The 7 shipped model files load and re-serialise to the same JSON value (numbers compared as f32), no key dropped or added. Deductive part: multiplier_is_1 / default_1, is_true / default_true and is_default agree for every f32 and bool (Kani). Which field carries which pair lives in serde derive attributes, and number formatting in serde_json: neither verifier can read those, so the rest is bounded.",
            "note": "Equality is judged on the Debug rendering (covers every field that derives Debug - all model types do). " + _TB},
    "C05": {"technique": "contracts on Model::try_from + as_json (a function of the project text only) and Model::energy_indicators (a function of the model only), evaluated on the real code by repetition, a fresh process, 16 threads and all ordered pairs of histories (bounded stand-in); no verifier here reasons about threads or processes",
            "text": "Bounded: each of the 12 shipped projects converts to byte-identical JSON twice in one process, in a fresh process and on 16 threads at once, and so does every project obtained by setting one number of the first block of every kind to 0 / 1 (twice in the process and on another thread); adding an unrelated library definition (14 block kinds x 3 positions x 12 projects) changes no existing id, nor does a definition of one kind under the name of an element of another kind (10 kinds pairwise, before / after the namesake: ids kept and no id shared); the 6 (project, reference model) pairs of the Makefile convert exactly to the shipped models; indicators of each of the 7 shipped models are the same JSON value alone, after any other model, and on 16 threads. Key order of map-typed results is not compared (not a value).",
            "note": "Concurrency is sampled by running, not explored: a race that needs a particular interleaving can be missed. " + _TB},
    "C03": {"technique": "Kani proof harnesses on the real angle-convention functions (full float domain) and Polygon::mirror_y (<=5 vertices)",
            "text": "Narrow claim: only the angle-convention leaves of the conversion are decided - orientation_bdl_to_52016 lies in [-180,180] and is congruent to 180-a (mod 360) for every float in [-1080,1080], turning the building by d shifts every converted azimuth by -d, mirror_y keeps vertex 0 / reverses the rest / negates y. Positions, normals and rotations (trigonometry) are listed as undecided in the evidence.",
            "note": _TB + "Nothing is claimed through sin/cos (nondeterministic in Kani)."},
    "C06": {"technique": "Kani function contracts (requires/ensures on fround2/fround3, proof_for_contract, stub_verified in callers) + complete proof of the exterior U formula split by binade; bounded enumeration for Wall::u_value dispatch",
            "text": "Deductive for the leaves: rounding contracts for every f32, tilt classes, 1/(Rsi+R+Rse) to two decimals with Rsi by heat-flow direction for EVERY resistance in [0,100] and tilt in [0,360] (11 binade pieces whose union is the whole interval), missing resistance => no value, un-buried basement wall identity, panic-freedom of the ground formulas. The dispatch on boundary kind / adjacent space / ventilation, the partition formula and layer monotonicity run through Vec lookups and two divisions over four floats: same contracts, enumerated exhaustively at a stated small scope (bounded, never counted as proved).",
            "note": _TB + "ln-based EN ISO 13370 values are not decided deductively (Kani's logf is nondeterministic)."},
    "C07": {"technique": "Kani proof harnesses on WinCons::u_value / g_glwi / g_glshwi with all links and scalars symbolic (1 glass + 1 frame); bounded grid for the numeric U formula and the downstream defaults",
            "text": "Deductive: a window construction has a U-value exactly when glazing and frame both resolve (present / nil / dangling ids, all scalars symbolic); g_gl;wi = 0.90 g_gl;n to two decimals, user shading factor wins, fallback to g_gl;wi otherwise. The four-multiplication U formula and the 0.77 / 5.7 defaults inside the aggregators are checked by bounded enumeration.",
            "note": _TB + "ConsDb shape fixed to one glass and one frame in the Kani harnesses (unwind 18 for the 16-byte id comparison)."},
    "C08": {"technique": "contract on KData::from(&EnergyProps) and EnergyProps::from(&Model) written from the property statement, discharged by exhaustive small-scope enumeration on the natively compiled real code (bounded stand-in; BTreeMap iteration is beyond both verifiers)",
            "text": "Bounded: the K contract (membership, net areas, multipliers, override-before-computed-before-5.7, bridges of non-negative length, breakdown adds up, min<=mean<=max, rename/reorder invariance) is evaluated on every combination of the stated scope (2 walls x 384 variants each, 2 windows, 2 bridges of all 9 kinds). Only the rounding helper is proved deductively.",
            "note": "Exhaustive only within the stated scope; one non-empty BTreeMap already exceeds 600 s in CBMC (measured), Verus rejects iterator chains. " + _TB},
    "C09": {"technique": "Kani proof of the corner-case clauses of N50Data::from for every GlobalProps with empty element maps; bounded enumeration of the formula with elements",
            "text": "The zero-volume / zero-wall-area / with-and-without-test branches are proved for all float inputs on empty maps (they do not depend on map content); the formula 0.629 (Co Ao + sum Ch Ah)/V with exclusions, multipliers, default Ch = 100 and the back-calculated wall permeability is checked on every combination of 2 walls x 2 windows x globals (663k cases).",
            "note": "Bounded for everything that iterates a BTreeMap. " + _TB},
    "C10": {"technique": "contract on QSolJulData::from written from the statement, exhaustive small-scope enumeration (bounded); Kani proofs of the orientation classifier it depends on; exhaustive check of the 32x9 July table",
            "text": "Bounded: gains formula, override -> computed -> 1 precedence, 0.77 / 0.20 defaults, per-orientation breakdown adds up, every mean is the area-weighted mean, all figures finite when no window participates (A_ref 0 and 100). The orientation sectors and their 360-periodicity are proved for every float; the embedded July table is enumerated completely.",
            "note": "HashMap argument and BTreeMap iteration are out of deductive reach. " + _TB},
    "C11": {"technique": "Kani proofs over the full f32 domain for both classifiers (congruence mod 360, sector tables, parser/model agreement, normalize); bounded enumeration for areas, volumes, compactness, membership, ventilation, scaling",
            "text": "Complete proofs: Tilt and Orientation depend only on the angle modulo 360 for every pair of floats in [-720,1080] whose difference is exactly a multiple of 360, their sector tables, and identical classification by parser and model for every tilt in [0,360]. Reference area, volumes, compactness, envelope membership rule, ventilation-rate agreement and s/s2/s3 scaling are bounded obligations on small models.",
            "note": _TB},
    "C12": {"technique": "contract on Model::sunlit_fraction / compute_fshobst (range, no-geometry cases, monotone in the obstacle set, formula at the two extremes) by exhaustive enumeration of a 5-obstacle scene (bounded); BVH exactness delegated to C13's obligations",
            "text": "Bounded: every sunlit fraction and every factor lies in [0,1] (never NaN), 1 for missing geometry, 0 behind the window, non-increasing when any of 5 obstacles is added (all 32 subsets), >= 0.97 and equal to the independent hour-by-hour mean when unobstructed, equal to the diffuse share when hidden at every hour.",
            "note": "radiation_for_surface (trigonometry) is used as given inside the oracle; partially obstructed values are not decided. " + _TB},
    "C13": {"technique": "Verus contracts (requires/ensures/invariant/decreases + ghost lemmas) on BVH::generate_node_list extracted verbatim every run; Kani proofs of the AABB algebra; bounded enumeration for tree reconstruction, ray/polygon tests and reveal surfaces",
            "text": "Unbounded proof (Verus, any number of obstacles and any leaf size >= 1): the node-list builder terminates, has no arithmetic overflow/underflow and no failing unwrap, loses and duplicates no element (leaf sizes add up to n; the leaves together hold exactly the multiset of obstacles given), puts the parentless root first, gives every leaf 1..max elements and every entry an earlier Node as parent; the partition step partition_elements_by_centroid (verbatim) gives two non-empty halves for n >= 2, loses nothing and calls split_off inside its precondition - under contract P' of the plane step (every element goes to exactly one side), which is checked boundedly on the real function. PreorderIter::next (verbatim) discards exactly the subtrees whose box the ray misses and is the spec function step; over step a ghost theorem shows that the whole traversal returns exactly the nodes whose own and every ancestor's box is met. Kani proves join/containment/identity of boxes and that a ray hitting a box hits every enclosing box. Accelerated == exhaustive answers, point-in-polygon, ray/posed-polygon hits, box tightness and reveal surfaces are bounded obligations.",
            "note": _TB + "partition_elements_by_centroid_plane (f32 mean + Iterator::partition) is external_body in the Verus unit (assumed contract P': every element on exactly one side; twin obligation C13.partition bounded); build_from_node_list / PreorderIter use BTreeMap and Box recursion and are covered only by the bounded equivalence obligation."},
    "C14": {"technique": "panic-freedom / termination contract on Model::energy_indicators over every single structural edit (and a stated family of pairs) of a seed model's JSON tree, enumerated exhaustively (bounded); Kani/Verus panic-freedom of the leaves",
            "text": "Bounded: for every model obtained from a closed seed by one edit (1187) or a stated set of edit pairs (69k) that still loads, the computation returns without panic within 20 s and a later computation on the seed is unaffected; the closed seed gives finite figures that serialise and load back. Deductive part: panic-freedom and termination of the BVH builder (Verus) and of the ground formulas (Kani).",
            "note": "Scope = edits of one seed model; exhaustive within it. " + _TB},
    "C15": {"technique": "contract on check(&Model) (exact multiset of warning ids from an independent oracle, frame: model unchanged) by exhaustive small-scope enumeration (bounded; HashSet + format! exceed CBMC)",
            "text": "Bounded: for all 46656 combinations of valid / nil / absent links on 2 walls, 2 windows and bridge lengths in {-1,-0.0,0,1}, the multiset of warning ids equals the broken links, a closed model is silent, the model is unchanged and the indicators' warnings are the checker's.",
            "note": _TB},
    "C16": {"technique": "contract on purge_unused(&mut Model) with an independent reachability oracle, frame and idempotence clauses, by exhaustive small-scope enumeration (bounded)",
            "text": "Bounded: on 62208 models with every sharing pattern of the reference chain space -> loads/thermostat -> yearly -> weekly -> daily (and constructions -> materials / glazing / frame), exactly the unreachable items are removed in order, kept items are unchanged, purging twice equals once, no link breaks and the indicators are unchanged.",
            "note": _TB},
    "C17": {"technique": "Kani proof of day_of_year against the calendar for every date; bounded enumeration of week/year expansion, HULC schedule conversion and occupancy figures",
            "text": "Complete proof that day_of_year equals the calendar ordinal for all 365 dates. Run-length expansion, weekday alignment (day k takes slot k mod 7), conversion of every end-date list from a grid plus all 364 single end dates, 7-day lists into runs, 1 -> 24 values, occupied hours and area-weighted mean loads are bounded obligations.",
            "note": _TB},
    "C20": {"technique": "Kani proofs of nday_from_md (all dates), hour-angle and relative-angle wrap ranges, non-negative beam irradiance; exhaustive check of the July table",
            "text": "Narrow claim: the integer / branch clauses are proved (day-of-year for every date of the non-leap year, angles wrapped into [-180,180], I_dir >= 0 for any value of cos); the embedded July-by-orientation table is enumerated for all 32 zones x 9 classes. The spherical-astronomy and radiation identities (trigonometry on f32) are listed as undecided.",
            "note": _TB + "Transcendental functions are over-approximated by Kani; no claim goes through them."},
}
