"""Which obligations decide which property, by which back end, at which tier.

backend kani   : name = harness fn name; `bounded` (text) when the harness fixes a shape / unwind bound
backend native : name = obligation id; test = full path of the #[test] in the lib test binary
backend verus  : name = unit id (see run_verus.UNITS)
"""

TRUSTED_BASE = [
    "rustc; Kani 0.68 MIR->GOTO translation; CBMC 6.11 bit-precise IEEE-754 semantics and CaDiCaL/kissat",
    "Verus 0.2026.09.13 + Z3 and the vstd specifications of Vec/Option/usize arithmetic",
    "Kani models of floorf/roundf (exact); transcendental intrinsics (sin, cos, ln, acos, powf) are nondeterministic over-approximations: nothing numeric is claimed through them",
    "the scratch-copy injector (adds lines only; sha256 of every touched repo file recorded) and the Verus extractor (verbatim slices; diff-checked)",
    "unverified dependencies: nalgebra, uuid, std collections (BTreeMap, HashSet, HashMap), serde",
    "usize is 64-bit in all back ends; termination is claimed only where Verus proves a decreases clause",
]

ASSUMPTIONS = [
    "every kani::assume in a harness is a precondition of the contract (input ranges of the property's quantifier) and is guarded by a kani::cover! that must be SATISFIED",
    "bounded (native) obligations are exhaustive only within their stated scope and are never counted in obligations/discharged",
]

K = "kani"
N = "native"
V = "verus"


def kani(name, props, clause, fn, tier="quick", timeout=120, bounded=None, pkg="bemodel", timeout_thorough=None):
    d = {"backend": K, "name": name, "props": props, "clause": clause, "fn": fn, "tier": tier, "timeout": timeout,
         "pkg": pkg}
    if bounded:
        d["bounded"] = bounded
    if timeout_thorough:
        d["timeout_thorough"] = timeout_thorough
    return d


def native(name, props, clause, fn, test, tier="quick", timeout=240, pkg="bemodel", crash=False, scope=None,
           timeout_thorough=1500):
    return {"backend": N, "name": name, "props": props, "clause": clause, "fn": fn, "test": test, "tier": tier,
            "timeout": timeout, "timeout_thorough": timeout_thorough, "pkg": pkg, "crash_is_violation": crash,
            "scope": scope}


def verus(name, props, clause, fn, tier="quick"):
    return {"backend": V, "name": name, "props": props, "clause": clause, "fn": fn, "tier": tier}


ROOT = "verif_root::"
EN = "energy::verif_energy::n::"
RN = "verif_root::n::"
CV = "convert::from_ctehexml::verif_convert::n::"
RY = "energy::raytracing::ray::verif_ray::n::"
BV = "energy::raytracing::bvh::verif_bvh::n::"

OBLIGATIONS = [
    # ---- C11 classifiers (complete proofs over the full float domain) --------------------------------
    kani("c11_tilt_mod360", ["C11"], "C11.tilt.mod360", "bemodel::Tilt::from(f32)"),
    kani("c11_orient_mod360", ["C11", "C10"], "C11.orient.mod360", "bemodel::Orientation::from(f32)"),
    kani("c11_tilt_sectors", ["C11", "C06"], "C11.tilt.sectors", "bemodel::Tilt::from(f32)"),
    kani("c11_tilt_parser_model", ["C11"], "C11.tilt.parser_model", "hulc::bdl::Wall::position / bemodel::Tilt::from(f32)"),
    kani("c11_orient_sectors", ["C11", "C10"], "C11.orient.sectors", "bemodel::Orientation::from(f32)"),
    kani("c11_normalize_range", ["C11"], "C11.normalize", "bemodel::utils::normalize"),
    # ---- C06 leaves -----------------------------------------------------------------------------------
    kani("c06_fround2_contract", ["C06", "C07", "C08"], "C06.fround2", "bemodel::utils::fround2 (kani::requires/ensures, proof_for_contract)"),
    kani("c06_fround3_contract", ["C06"], "C06.fround3", "bemodel::utils::fround3 (kani::requires/ensures, proof_for_contract)"),
    kani("c06_fround2_monotone", ["C06"], "C06.fround2.monotone", "bemodel::utils::fround2"),
    kani("c06_uext_value", ["C06"], "C06.uext.value", "Wall::u_value_exterior (fround2 replaced by its verified contract)", timeout=400),
    kani("c06_uext_none", ["C06"], "C06.uext.none", "Wall::u_value_exterior"),
    kani("c06_uint_value", ["C06"], "C06.uint.value", "Wall::u_value_interior_cond_uncond (fround2 replaced by its verified contract)", timeout=400),
    kani("c06_gnd_notburied", ["C06"], "C06.gnd.notburied", "Wall::u_value_gnd_wall / u_value_gnd_top"),
    kani("c06_gnd_panicfree", ["C06", "C14"], "C06.gnd.panicfree", "Wall::u_value_gnd_wall / u_value_gnd_slab"),
    # ---- C07 ------------------------------------------------------------------------------------------
    kani("c07_wincons_u", ["C07"], "C07.u", "WinCons::u_value", timeout=300, bounded="ConsDb with 1 glass + 1 frame; all scalars and both links symbolic"),
    kani("c07_wincons_g", ["C07"], "C07.g", "WinCons::g_glwi / g_glshwi", timeout=300, bounded="ConsDb with 1 glass + 1 frame; all scalars and the glass link symbolic"),
    # ---- C09 ------------------------------------------------------------------------------------------
    kani("c09_n50_no_walls", ["C09"], "C09.corner", "N50Data::from(&EnergyProps)", bounded="element maps empty; every global scalar symbolic"),
    # ---- C13 ------------------------------------------------------------------------------------------
    kani("c13_aabb_join", ["C13"], "C13.aabb.join", "AABB::join / AABB::default"),
    kani("c13_aabb_mono", ["C13"], "C13.aabb.mono", "AABB::intersects / AABB::join", tier="thorough", timeout=900),
    kani("c13_build_empty", ["C13", "C14", "C12"], "C13.build.empty", "BVH::build / BVH::intersects", bounded="0 obstacles, leaf size in {1,2,30}"),
    kani("c13_build_single", ["C13", "C12"], "C13.build.equiv", "BVH::build / BVH::intersects", bounded="1 obstacle with symbolic box and hit flag, leaf size in {1,2,30}", timeout=300),
    verus("bvh_builder", ["C13", "C14"], "C13.builder", "BVH::generate_node_list"),
    # ---- C17 / C03 (convert) -------------------------------------------------------------------------
    kani("c17_day_of_year", ["C17"], "C17.doy", "convert::from_ctehexml::day_of_year"),
    kani("c03_azimuth_convention", ["C03"], "C03.azimuth", "convert::orientation_bdl_to_52016"),
    kani("c03_azimuth_shift", ["C03"], "C03.azimuth.shift", "convert::orientation_bdl_to_52016"),
    kani("c03_mirror_y", ["C03"], "C03.mirror", "hulc::bdl::Polygon::mirror_y", pkg="hulc", bounded="1..5 vertices, symbolic coordinates"),
    # ---- C20 (climate crate) -------------------------------------------------------------------------
    kani("c20_nday_from_md", ["C20"], "C20.nday", "climate::nday_from_md", pkg="climate"),
    kani("c20_hourangle_range", ["C20"], "C20.hourangle", "climate::solar::hourangle_from_tsol", pkg="climate"),
    kani("c20_sol_surf_wrap", ["C20"], "C20.wrap", "climate::solar::azimuth_sol_surf / tilt_sol_surf", pkg="climate"),
    kani("c20_idir_nonneg", ["C20"], "C20.idir.nonneg", "climate::solar::I_dir", pkg="climate"),

    # ======================= bounded stand-ins (native exhaustive small scope) ==========================
    native("n_c08_kdata_walls", ["C08"], "C08.kdata.walls", "KData::from(&EnergyProps)", EN + "n_c08_kdata_walls"),
    native("n_c08_kdata_windows", ["C08"], "C08.kdata.windows", "KData::from(&EnergyProps)", EN + "n_c08_kdata_windows"),
    native("n_c08_kdata_bridges", ["C08"], "C08.kdata.bridges", "KData::from(&EnergyProps)", EN + "n_c08_kdata_bridges"),
    native("n_c11_poly", ["C11"], "C11.poly", "Polygon::area / Polygon::perimeter", RN + "n_c11_poly"),
    native("n_c11_props_model", ["C11", "C08", "C09"], "C11.props", "EnergyProps::from(&Model) / Model::global_ventilation_rate / Space::area / Space::height_net / Wall::area_net", RN + "n_c11_props_model"),
    native("n_c11_scaling", ["C11"], "C11.scaling", "EnergyProps::from(&Model)", RN + "n_c11_scaling"),
    native("n_c15_check", ["C15"], "C15.check", "check(&Model) / EnergyIndicators::compute", RN + "n_c15_check"),
    native("n_c16_purge", ["C16"], "C16.purge", "purge_unused(&mut Model)", RN + "n_c16_purge"),
    native("n_c13_bvh_equiv", ["C13", "C12"], "C13.bvh.equiv", "BVH::build / BVH::intersects / build_from_node_list / PreorderIter", BV + "n_c13_bvh_equiv", crash=True, timeout=120),
    native("n_c13_bvh_many", ["C13", "C14"], "C13.bvh.many", "BVH::build / partition_elements_by_centroid", BV + "n_c13_bvh_many", crash=True, timeout=120),
    native("n_c13_partition", ["C13"], "C13.partition", "BVH::partition_elements_by_centroid (contract P assumed by the Verus unit)", BV + "n_c13_partition"),
    native("n_c13_point_in_poly", ["C13"], "C13.pip", "raytracing::ray::point_in_poly", RY + "n_c13_point_in_poly"),
    native("n_c13_ray_polygon", ["C13"], "C13.ray.poly", "Ray::intersects_with_data", RY + "n_c13_ray_polygon"),
    native("n_c13_ray_posed", ["C13"], "C13.ray.posed", "impl Intersectable for WallGeom / WallGeom::to_global_coords_matrix", EN + "n_c13_ray_posed"),
    native("n_c13_geom_aabb", ["C13"], "C13.geom.aabb", "impl Bounded for WallGeom (aabb)", EN + "n_c13_geom_aabb"),
    native("n_c13_setback", ["C13", "C12"], "C13.setback", "Window::shades_for_setback", EN + "n_c13_setback"),
    native("n_c13_aabb_slab", ["C13"], "C13.aabb.slab", "AABB::intersects", EN + "n_c13_aabb_slab"),
    native("n_c12_sunlit", ["C12", "C14"], "C12.sunlit", "Model::sunlit_fraction / collect_occluders / ray_origins_for_window", EN + "n_c12_sunlit"),
    native("n_c12_fshobst", ["C12"], "C12.fshobst", "Model::compute_fshobst", EN + "n_c12_fshobst"),
    native("n_c17_week_expand", ["C17"], "C17.week.expand", "ScheduleWeek::to_day_sch", RN + "n_c17_week_expand"),
    native("n_c17_year_expand", ["C17"], "C17.year.expand", "SchedulesDb::get_year_as_day_sch / year_values", RN + "n_c17_year_expand"),
    native("n_c17_occupancy", ["C17"], "C17.occupancy", "EnergyProps::from(&Model) (occ_spaces_hours_in_use, occ_spaces_average_load, loads_avg)", RN + "n_c17_occupancy"),
    native("n_c17_convert_year", ["C17"], "C17.convert.year", "convert::schedules_from_bdl / day_of_year", CV + "n_c17_convert_year"),
    native("n_c17_convert_week_day", ["C17"], "C17.convert.week", "convert::schedules_from_bdl", CV + "n_c17_convert_week_day"),
    native("n_c14_seed_closed", ["C14"], "C14.seed", "Model::energy_indicators / EnergyIndicators::as_json", RN + "n_c14_seed_closed"),
    native("n_c14_single_edits", ["C14"], "C14.edit1", "Model::energy_indicators (EnergyProps::from, compute_fshobst, KData, N50Data, QSolJulData, check)", RN + "n_c14_single_edits", crash=True, timeout=300),
    native("n_c14_double_edits", ["C14"], "C14.edit2", "Model::energy_indicators", RN + "n_c14_double_edits", crash=True, timeout=600),
    native("n_c09_n50", ["C09"], "C09.n50", "N50Data::from(&EnergyProps)", EN + "n_c09_n50"),
    native("n_c10_qsoljul", ["C10"], "C10.qsoljul", "QSolJulData::from(&EnergyProps, &HashMap<Orientation,f32>)", EN + "n_c10_qsoljul"),
    native("n_c10_july_table", ["C10", "C20"], "C10.table", "climatedata::total_radiation_in_july_by_orientation", EN + "n_c10_july_table"),
]

PROPERTIES = {
    "C11": {"level": "proof", "undecided_clauses": []},
    "C06": {"level": "proof"},
    "C07": {"level": "proof"},
    "C09": {"level": "proof"},
    "C13": {"level": "proof"},
    "C17": {"level": "proof"},
    "C03": {"level": "proof"},
    "C20": {"level": "proof"},
    "C12": {"level": "proof"},
    "C14": {"level": "proof"},
    "C08": {"level": "proof"},
    "C10": {"level": "proof"},
    "C15": {"level": "exploration"},
    "C16": {"level": "exploration"},
}
