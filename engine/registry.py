"""Which obligations decide which property, by which back end, at which tier.

backend kani   : name = harness fn name; `bounded` (text) when the harness fixes a shape / unwind bound
backend native : name = obligation id; test = full path of the #[test] in the lib test binary
backend verus  : name = unit id (see run_verus.UNITS)
"""

TRUSTED_BASE = [
    "rustc; Kani 0.68 MIR->GOTO translation; CBMC 6.11 bit-precise IEEE-754 semantics and CaDiCaL/kissat",
    "Verus 0.2026.09.13 + Z3 and the vstd specifications of Vec/Option/usize arithmetic",
    "Kani models of floorf/roundf (exact); transcendental intrinsics (sin, cos, ln, acos, powf) are nondeterministic over-approximations: nothing numeric is claimed through them",
    "the scratch-copy injector (adds lines only; sha256 of every touched repo file recorded) and the Verus extractor (verbatim slices; diff-checked)",
    "unverified dependencies: nalgebra, uuid, std collections (BTreeMap, HashSet, HashMap), serde",
    "usize is 64-bit in all back ends; termination is claimed only where Verus proves a decreases clause",
]

ASSUMPTIONS = [
    "every kani::assume in a harness is a precondition of the contract (input ranges of the property's quantifier) and is guarded by a kani::cover! that must be SATISFIED",
    "bounded (native) obligations are exhaustive only within their stated scope and are never counted in obligations/discharged",
]

K = "kani"
N = "native"
V = "verus"


def kani(name, props, clause, fn, tier="quick", timeout=120, bounded=None, pkg="bemodel", timeout_thorough=None):
    d = {"backend": K, "name": name, "props": props, "clause": clause, "fn": fn, "tier": tier, "timeout": timeout,
         "pkg": pkg}
    if bounded:
        d["bounded"] = bounded
    if timeout_thorough:
        d["timeout_thorough"] = timeout_thorough
    return d


def native(name, props, clause, fn, test, tier="quick", timeout=240, pkg="bemodel", crash=False, scope=None,
           timeout_thorough=1500):
    return {"backend": N, "name": name, "props": props, "clause": clause, "fn": fn, "test": test, "tier": tier,
            "timeout": timeout, "timeout_thorough": timeout_thorough, "pkg": pkg, "crash_is_violation": crash,
            "scope": scope}


def verus(name, props, clause, fn, tier="quick"):
    return {"backend": V, "name": name, "props": props, "clause": clause, "fn": fn, "tier": tier}


ROOT = "verif_root::"

OBLIGATIONS = [
    # ---- C11 classifiers (complete proofs over the full float domain) --------------------------------
    kani("c11_tilt_mod360", ["C11"], "C11.tilt.mod360", "bemodel::Tilt::from(f32)"),
    kani("c11_orient_mod360", ["C11", "C10"], "C11.orient.mod360", "bemodel::Orientation::from(f32)"),
    kani("c11_tilt_sectors", ["C11", "C06"], "C11.tilt.sectors", "bemodel::Tilt::from(f32)"),
    kani("c11_tilt_parser_model", ["C11"], "C11.tilt.parser_model", "hulc::bdl::Wall::position / bemodel::Tilt::from(f32)"),
    kani("c11_orient_sectors", ["C11", "C10"], "C11.orient.sectors", "bemodel::Orientation::from(f32)"),
    kani("c11_normalize_range", ["C11"], "C11.normalize", "bemodel::utils::normalize"),
]

PROPERTIES = {
    "C11": {
        "level": "proof",
        "undecided_clauses": [],
    },
}
