#!/usr/bin/env python3
"""Regenerate MANIFEST.json from the registry (developer tool; the file is committed)."""
import json
import os
import sys

sys.path.insert(0, os.path.dirname(os.path.abspath(__file__)))
import registry

TEXT = registry.MANIFEST_TEXT
checks = []
for pid in sorted(registry.PROPERTIES):
    P = registry.PROPERTIES[pid]
    t = TEXT[pid]
    checks.append({
        "property_id": pid,
        "quick_cmd": f"bin/check {pid}",
        "thorough_cmd": f"bin/check {pid} --tier thorough",
        "evidence_file": f"/verif/evidence/{pid}.json",
        "replay_cmd_template": f"bin/check {pid} --replay {{path}}",
        "engine": "contracts",
        "level_claimed": {"category": P["level"], "text": t["text"], "design_ref": t.get("ref", "DESIGN.md section 5")},
        "level_note": t["note"],
        "technique": t["technique"],
    })
man = {
    "version": 1,
    "setup_cmd": "bin/setup",
    "hooks": {
        "guard": "cfg(any(kani, verif_native)) -- exists only in the scratch copy the checks make of /repo; /repo itself carries no hook",
        "enable": "bin/check copies /repo's working tree to /var/tmp/verif/<id>/repo, appends '#[cfg(any(kani, verif_native))] mod verif_*;' lines and kani::requires/ensures attributes (contracts/anchors.json), then runs cargo kani / cargo test with RUSTFLAGS=--cfg verif_native / verus on the extracted functions",
        "baseline_off_cmd": "cd /repo && cargo test --workspace --no-fail-fast --offline",
        "source_commits": [],
        "add_only": True,
    },
    "engines": [
        {"name": "contracts", "path": "bin/check", "serves_properties": sorted(registry.PROPERTIES),
         "kind_free_text": "contract-based deductive verification of the real code: Kani function contracts / proof harnesses on a scratch copy of the real crates, Verus on functions extracted verbatim each run, and the same contracts enumerated exhaustively at small scope on the natively compiled code as a labelled bounded stand-in"},
    ],
    "checks": checks,
    "notes": "Exit 0 = all obligations discharged; 1 = VIOLATION (failed obligation with replay); 2 = undecided (tool limit / lost anchor), never reported as a violation. Repairs of genuine defects found by these checks are the 'fix:' commits in /repo listed in /verif/known-findings.txt.",
    "not_applicable": registry.NOT_APPLICABLE,
}
json.dump(man, open(os.path.join(os.path.dirname(os.path.dirname(os.path.abspath(__file__))), "MANIFEST.json"), "w"), indent=1)
print("MANIFEST.json written:", len(checks), "checks")
