#!/usr/bin/env python3
"""bin/check <ID> [--tier quick|thorough] [--replay FILE]

Decides one property by discharging its contract obligations on a fresh scratch copy of /repo's working tree:
  * Kani  : proof harnesses / function-contract proofs on the real crate   (deductive, complete unless labelled bounded)
  * Verus : contracts on functions extracted verbatim from the repo each run (deductive, unbounded)
  * native: the same contracts enumerated exhaustively at small scope       (bounded stand-in, never counted as proof)
Exit 0 = every obligation discharged; 1 = VIOLATION (a failed obligation, with replay); 2 = undecided (tool limit).
"""
import argparse
import json
import os
import sys
import time

sys.path.insert(0, os.path.dirname(os.path.abspath(__file__)))
import common
import registry
import run_kani
import run_native
import run_verus
from common import (EVIDENCE_DIR, EXIT_OK, EXIT_UNDECIDED, EXIT_VIOLATION, REPLAY_DIR, VERIF, Scratch, Undecided,
                    finding_for, inject, load_findings, scan_assumptions, write_json)


def log(msg):
    print(f"[check] {msg}", file=sys.stderr, flush=True)


def tier_ok(ob, tier):
    return tier == "thorough" or ob.get("tier", "quick") == "quick"


def main():
    ap = argparse.ArgumentParser()
    ap.add_argument("prop")
    ap.add_argument("--tier", default=os.environ.get("VERIF_TIER", "quick"), choices=["quick", "thorough"])
    ap.add_argument("--replay")
    ap.add_argument("--only", help="comma separated obligation names (debugging)")
    args = ap.parse_args()
    prop = args.prop
    if prop not in registry.PROPERTIES:
        print(f"unknown or not-claimed property {prop}", file=sys.stderr)
        return EXIT_UNDECIDED
    if args.replay:
        return replay(prop, args.replay)
    seed = int(os.environ.get("VERIF_SEED", "0") or 0)
    t0 = time.time()
    P = registry.PROPERTIES[prop]
    obs = [o for o in registry.OBLIGATIONS if prop in o["props"] and tier_ok(o, args.tier)]
    if args.only:
        names = set(args.only.split(","))
        obs = [o for o in obs if o["name"] in names]
    results = []          # one record per obligation
    fatal = None
    touched = {}
    findings = load_findings()
    jobs = int(os.environ.get("VERIF_JOBS", "16"))
    try:
        with Scratch(prop) as s:
            touched = inject(s, log)
            for fn, be in ((do_kani, "kani"), (do_verus, "verus"), (do_native, "native")):
                sel = [o for o in obs if o["backend"] == be]
                try:
                    results += fn(s, prop, sel, args.tier, jobs) if be != "verus" else fn(s, prop, sel, args.tier)
                except Undecided as e:
                    log(f"{be} back end undecided: {str(e)[:400]}")
                    for o in sel:
                        results.append({"obligation": o["name"], "clause": o.get("clause", o["name"]), "backend": be,
                                        "kind": "bounded" if (be == "native" or o.get("bounded")) else "deductive",
                                        "bound": o.get("bounded") or o.get("scope"), "function": o.get("fn"),
                                        "status": "undecided", "detail": str(e)[:400]})
    except Undecided as e:
        fatal = str(e)
        log("UNDECIDED: " + fatal)
    return finish(prop, P, args.tier, seed, t0, results, fatal, touched, findings)


# ---------------------------------------------------------------------------------------------------------

def do_kani(s, prop, obs, tier, jobs):
    out = []
    if not obs:
        return out
    by_pkg = {}
    for o in obs:
        by_pkg.setdefault(o["pkg"], []).append(o)
    for pkg, group in by_pkg.items():
        # harnesses with equal timeouts share one cargo-kani invocation
        by_to = {}
        for o in group:
            to = o.get("timeout_thorough", o.get("timeout", 120)) if tier == "thorough" else o.get("timeout", 120)
            by_to.setdefault(to, []).append(o)
        for to, g in sorted(by_to.items()):
            try:
                res = run_kani.run_harnesses(s, pkg, [o["name"] for o in g], to, min(jobs, len(g)), log)
            except Undecided as e:
                log("kani group undecided: " + str(e)[:400])
                for o in g:
                    out.append({"obligation": o["name"], "clause": o.get("clause", o["name"]), "backend": "kani",
                                "kind": "bounded" if o.get("bounded") else "deductive", "bound": o.get("bounded"),
                                "function": o.get("fn"), "status": "undecided", "detail": str(e)[:400]})
                continue
            for o in g:
                r = res[o["name"]]
                rec = {"obligation": o["name"], "clause": o.get("clause", o["name"]), "backend": "kani",
                       "kind": "bounded" if o.get("bounded") else "deductive", "bound": o.get("bounded"),
                       "function": o.get("fn"), "status": r["status"], "secs": r.get("secs"),
                       "solver_s": r.get("solver_s"), "checks": r.get("checks"), "detail": r.get("detail"),
                       "failed_checks": [f["description"] for f in r.get("failed", [])], "stubs": r.get("stubs")}
                if r["status"] == "failed":
                    log(f"kani obligation {o['name']} FAILED: {rec['failed_checks'][:3]}; extracting counterexample")
                    pb = run_kani.concrete_playback(s, pkg, o["name"], max(to, 120), log)
                    rec["playback"] = pb
                out.append(rec)
    return out


def do_verus(s, prop, obs, tier):
    out = []
    for o in obs:
        try:
            out += run_verus.run_unit(s, o, tier, log)
        except Undecided as e:
            log("verus unit undecided: " + str(e)[:300])
            out.append({"obligation": o["name"], "clause": o.get("clause", o["name"]), "backend": "verus", "kind": "deductive",
                        "bound": None, "function": o.get("fn"), "status": "undecided", "detail": str(e)[:400]})
    return out


def do_native(s, prop, obs, tier, jobs):
    out = []
    if not obs:
        return out
    exes = {}
    for o in obs:
        if o["pkg"] not in exes:
            exes[o["pkg"]] = run_native.build(s, o["pkg"], log)
    if any(o.get("bins") for o in obs):
        run_native.build_bins(s, log)
    for o in obs:
        to = o.get("timeout_thorough", 1500) if tier == "thorough" else o.get("timeout", 240)
        r = run_native.run_obligation(s, exes[o["pkg"]], o["test"], tier, jobs, to, log, progress=bool(o.get("crash_is_violation")))
        rec = {"obligation": o["name"], "clause": o.get("clause", o["name"]), "backend": "native", "kind": "bounded",
               "sampled": o.get("sampled") == "always" or (o.get("sampled") == "quick" and tier != "thorough"),
               "bound": r.get("scope") or o.get("scope"), "function": o.get("fn"), "secs": r.get("secs"),
               "evaluations": r.get("evaluations", 0), "distinct_nontrivial": r.get("distinct_nontrivial", 0),
               "samples": r.get("samples", []), "clauses": r.get("clauses", {}), "failures": r.get("failures", []),
               "n_failures": r.get("n_failures", 0), "test": o["test"], "pkg": o["pkg"]}
        if r.get("crashed") or r.get("timed_out"):
            if o.get("crash_is_violation"):
                rec["status"] = "failed"
                rec["failures"] = [{"clause": o.get("clause", o["name"]) + (".terminates" if r.get("timed_out") else ".no-crash"),
                                    "case": c, "detail": ("did not terminate within %ss" % to) if r.get("timed_out")
                                    else "process died (abort / allocation failure): " + r.get("output", "")[-300:]}
                                   for c in (r.get("in_progress") or [[]])]
                rec["n_failures"] = len(rec["failures"])
            else:
                rec["status"] = "timeout" if r.get("timed_out") else "undecided"
                rec["detail"] = r.get("output", "")[-400:]
        elif r.get("truncated"):
            rec["status"] = "undecided"
            rec["detail"] = "enumeration truncated"
        elif r.get("n_failures", 0) > 0:
            rec["status"] = "failed"
        elif r.get("evaluations", 0) == 0:
            rec["status"] = "undecided"
            rec["detail"] = "vacuity guard: enumerator evaluated zero cases"
        else:
            rec["status"] = "success"
        log(f"native {o['name']}: {rec['status']} evals={rec['evaluations']} nontrivial={rec['distinct_nontrivial']} "
            f"failures={rec['n_failures']} {rec['secs']}s")
        out.append(rec)
    return out


# ---------------------------------------------------------------------------------------------------------

def finish(prop, P, tier, seed, t0, results, fatal, touched, findings):
    os.makedirs(REPLAY_DIR, exist_ok=True)
    violations, known, undecided = [], [], []
    for r in results:
        if r["status"] == "success":
            continue
        if r["status"] != "failed":
            undecided.append(r)
            continue
        # one violation per (obligation, clause, input)
        items = []
        if r["backend"] == "native":
            seen = set()
            for f in r["failures"]:
                if f["clause"] == "panic-free":
                    f["clause"] = r["clause"] + ".panic-free"
                key = f["clause"]
                if key in seen:
                    continue
                seen.add(key)
                items.append({"clause": f["clause"], "input": "case=" + ".".join(str(x) for x in f["case"]),
                              "detail": f["detail"], "case": f["case"]})
        elif r["backend"] == "kani":
            pb = r.get("playback") or {}
            vals = ";".join(pb.get("values") or [])
            seen = set()
            for d in r["failed_checks"]:
                import re as _re
                d = d.strip('"')
                m = _re.match(r"(C\d\d[\w.\-]*)", d)
                clause = m.group(1) if m else r["clause"] + ".panic-free"
                if clause in seen:
                    continue
                seen.add(clause)
                items.append({"clause": clause, "input": ("kani:" + vals.replace(" ", "")) if vals else None,
                              "detail": "; ".join(x for x in r["failed_checks"] if x.strip('"').startswith(clause) or not m)[:400],
                              "playback": pb})
        else:
            for f in r.get("failures", []):
                items.append({"clause": f["clause"], "input": None, "detail": f["detail"]})
        for it in items:
            kf = finding_for(findings, prop, it["clause"], it["input"])
            rp = os.path.join(REPLAY_DIR, f"{prop}-{r['obligation']}-{it['clause'].replace('/', '_')}.json")
            write_json(rp, {"property": prop, "obligation": r["obligation"], "clause": it["clause"],
                            "backend": r["backend"], "input": it["input"], "detail": it["detail"],
                            "case": it.get("case"), "test": r.get("test"), "pkg": r.get("pkg"),
                            "playback": it.get("playback"), "function": r.get("function"), "tier": tier, "seed": seed,
                            "replay_cmd": f"bin/check {prop} --replay {rp}"})
            entry = {"obligation": r["obligation"], "clause": it["clause"], "replay": rp, "input": it["input"],
                     "detail": it["detail"], "backend": r["backend"],
                     "has_input": bool(it["input"]) and not (r["backend"] == "kani" and (it.get("playback") or {}).get("reproduced") is not True)}
            if kf:
                known.append((kf, entry))
            else:
                violations.append(entry)

    deductive = [r for r in results if r["kind"] == "deductive"]
    bounded = [r for r in results if r["kind"] == "bounded"]
    # obligations = deductive obligations DECIDED by this run (undecided ones are listed separately, never counted)
    n_ded = sum(1 for r in deductive if r["status"] in ("success", "failed"))
    n_ded_ok = sum(1 for r in deductive if r["status"] == "success")
    evals = sum(r.get("evaluations", 0) for r in bounded)
    nontriv = sum(r.get("distinct_nontrivial", 0) for r in bounded)
    samples = []
    for r in bounded:
        for sm in r.get("samples", [])[:2]:
            samples.append({"obligation": r["obligation"], "case": sm})
    for r in deductive[:6]:
        samples.append({"obligation": r["obligation"], "clause": r["clause"], "function": r.get("function"),
                        "backend": r["backend"], "status": r["status"], "solver_s": r.get("solver_s")})
    level = P["level"]
    coverage = {
        "obligations": n_ded,
        "discharged": n_ded_ok,
        "checker_cmd": P.get("checker_cmd", "cargo kani -p <pkg> -Z function-contracts -Z stubbing --harness <h> (scratch copy of /repo with contracts injected); verus <extracted>.rs"),
        "trusted_base": registry.TRUSTED_BASE + P.get("trusted", []),
        "deductive_obligations": [{k: r.get(k) for k in ("obligation", "clause", "backend", "function", "status", "secs", "solver_s", "checks", "detail")} for r in deductive],
        "bounded_obligations": [{k: r.get(k) for k in ("obligation", "clause", "backend", "function", "bound", "status", "secs", "evaluations", "distinct_nontrivial", "clauses", "detail")} for r in bounded],
        "evaluations": evals,
        "distinct_nontrivial": nontriv,
        "rule": P.get("rule", "bounded obligations enumerate every combination of the stated small scope by choice vector; a case is non-trivial when the function under contract returns something other than its empty-input default (keyed by the obligation's own signature of the case)"),
        "samples": samples or [{"note": "no obligation ran"}],
        # complete enumeration of a finite space: every bounded obligation ran to the end and none of them is a slice /
        # a sample in this tier
        "exhaustive": bool(bounded) and all(r["status"] == "success" and not r.get("sampled") for r in bounded),
        "sampled_obligations": [r["obligation"] for r in bounded if r.get("sampled")],
        "undecided_clauses": P.get("undecided_clauses", []),
        "functions_under_contract": sorted({r.get("function") for r in results if r.get("function")}),
        "repo_files_sha256": touched,
        "explanation": P.get("explanation", ""),
    }
    ev = {
        "property_id": prop, "tier": tier, "seed": seed, "level": level, "coverage": coverage,
        "assumptions": registry.ASSUMPTIONS + P.get("assumptions", []) + ["mechanical scan of assumption-introducing constructs in /verif/contracts and /verif/verus: " + "; ".join(scan_assumptions()[:60])],
        "wall_s": round(time.time() - t0, 2),
        "violations": len(violations),
        "known_findings": [k[0]["text"] for k in known],
        "undecided": [{"obligation": r["obligation"], "status": r["status"], "detail": r.get("detail")} for r in undecided] + ([{"fatal": fatal}] if fatal else []),
    }
    write_json(os.path.join(EVIDENCE_DIR, f"{prop}.json"), ev)

    for kf, e in known:
        print(f"KNOWN-FINDING: property={prop} {e['clause']} {kf['text']}")
    for e in violations:
        tail = "" if e["has_input"] else " no-failing-input-found"
        print(f"VIOLATION property={prop} replay={e['replay']} obligation={e['clause']} ({e['backend']}: {e['detail'][:160]}){tail}")
    said = set()
    for r in undecided:
        line = f"UNDECIDED property={prop} obligation={r['obligation']} status={r['status']} {(r.get('detail') or '')[:200]}"
        if line not in said:
            print(line)
            said.add(line)
    if fatal:
        print(f"UNDECIDED property={prop} {fatal[:400]}")
    print(f"[check] {prop} tier={tier}: deductive {n_ded_ok}/{n_ded} discharged, bounded {sum(1 for r in bounded if r['status']=='success')}/{len(bounded)} passed "
          f"({evals} cases), violations={len(violations)} known={len(known)} undecided={len(undecided)} wall={ev['wall_s']}s", file=sys.stderr)
    if violations:
        return EXIT_VIOLATION
    n_ok = sum(1 for r in results if r["status"] == "success")
    if fatal or n_ok == 0:
        # nothing could be decided (scratch copy does not build, every obligation hit a tool limit): not a verdict
        if not results and not fatal:
            print(f"UNDECIDED property={prop} no obligation ran (vacuity guard)")
        return EXIT_UNDECIDED
    # Some obligations hit a tool limit (timeout, lost anchor of the Verus unit, unwinding bound): they are listed as
    # UNDECIDED above and in the evidence, they are neither a violation nor counted as discharged. The property held
    # on everything that was decided.
    return EXIT_OK


def replay(prop, path):
    rp = json.load(open(path))
    print(json.dumps({k: rp.get(k) for k in ("property", "obligation", "clause", "backend", "input", "detail")}, indent=1))
    with Scratch(prop + "-replay") as s:
        inject(s, log)
        if rp["backend"] == "native":
            exe = run_native.build(s, rp["pkg"], log)
            # the choice vector is relative to the tier and the seed of the run that found it (slices, tiered scopes)
            os.environ["VERIF_SEED"] = str(rp.get("seed", 0) or 0)
            if any(o.get("bins") for o in registry.OBLIGATIONS if o.get("test") == rp["test"]):
                run_native.build_bins(s, log)
            r = run_native.run_obligation(s, exe, rp["test"], rp.get("tier") or "quick", 1, 600, log, replay=rp.get("case") or [])
            fails = r.get("failures", [])
            if r.get("crashed") or r.get("timed_out"):
                print("REPLAY: process crashed / did not terminate on the real code:", r.get("output", "")[-400:])
                return EXIT_VIOLATION
            for f in fails:
                print(f"REPLAY: clause {f['clause']} fails on the real code: {f['detail']}")
            if fails:
                return EXIT_VIOLATION
            print("REPLAY: the recorded input no longer fails")
            return EXIT_OK
        if rp["backend"] == "kani":
            pb = run_kani.concrete_playback(s, rp.get("pkg") or "bemodel", rp["obligation"], 300, log)
            print("REPLAY (kani concrete playback run natively):", json.dumps(pb, indent=1)[:3000])
            return EXIT_VIOLATION if pb.get("reproduced") else EXIT_OK
        if rp["backend"] == "verus":
            o = [o for o in registry.OBLIGATIONS if o["name"] == rp["obligation"]]
            r = run_verus.run_unit(s, o[0], "thorough", log)
            bad = [x for x in r if x["status"] == "failed"]
            for x in bad:
                print("REPLAY: verus obligation fails:", x["clause"], x.get("failures"))
            return EXIT_VIOLATION if bad else EXIT_OK
    return EXIT_UNDECIDED


if __name__ == "__main__":
    try:
        rc = main()
    except SystemExit:
        raise
    except BaseException as e:  # an internal error of the machinery is never a verdict about the property
        import traceback
        traceback.print_exc()
        print(f"UNDECIDED internal error of the checking machinery: {type(e).__name__}: {e}")
        rc = EXIT_UNDECIDED
    sys.exit(rc)
