"""Native bounded back end: build the scratch copy with --cfg verif_native on the repository toolchain and run
the exhaustive small-scope enumerator of one obligation against the natively compiled real code."""
import fcntl
import json
import os
import re
import shutil

from common import BINS_TARGET, NATIVE_TARGET, Undecided, env_offline, run

RUSTFLAGS = "--cfg verif_native -Awarnings"


def _env(extra=None):
    e = env_offline({"CARGO_TARGET_DIR": NATIVE_TARGET, "RUSTFLAGS": RUSTFLAGS,
                     "CARGO_PROFILE_DEV_OPT_LEVEL": "1", "CARGO_PROFILE_TEST_OPT_LEVEL": "1",
                     "CARGO_PROFILE_DEV_DEBUG": "0", "CARGO_PROFILE_TEST_DEBUG": "0",
                     "RUST_BACKTRACE": "0"})
    if extra:
        e.update(extra)
    return e


def build(scratch, package, log):
    """Compile the lib test binary of `package` in the scratch copy; returns its path."""
    cmd = ["cargo", "test", "--offline", "-p", package, "--lib", "--no-run", "--message-format=json"]
    log("native build: " + " ".join(cmd))
    # cargo names the test binary after the package only, so two checks building different scratch copies into the
    # shared target directory overwrite each other's binary: build and take a private copy under one lock
    os.makedirs(NATIVE_TARGET, exist_ok=True)
    lock = open(os.path.join(NATIVE_TARGET, ".verif-build.lock"), "w")
    fcntl.flock(lock, fcntl.LOCK_EX)
    try:
        return _build_locked(scratch, package, cmd, log)
    finally:
        fcntl.flock(lock, fcntl.LOCK_UN)
        lock.close()


def _build_locked(scratch, package, cmd, log):
    rc, out, secs, to = run(cmd, cwd=scratch.path, env=_env(), timeout=1800)
    exe = None
    errors = []
    for line in out.split("\n"):
        line = line.strip()
        if not line.startswith("{"):
            continue
        try:
            m = json.loads(line)
        except Exception:
            continue
        if m.get("reason") == "compiler-artifact" and m.get("executable") and m.get("profile", {}).get("test"):
            if m.get("target", {}).get("name") == package and "lib" in m.get("target", {}).get("kind", []):
                exe = m["executable"]
        if m.get("reason") == "compiler-message" and m.get("message", {}).get("level") == "error":
            errors.append(m["message"].get("rendered", "")[:600])
    if rc != 0 or not exe:
        raise Undecided("scratch copy does not compile natively with the contracts injected:\n" + "\n".join(errors[:5]) + out[-800:])
    private = os.path.join(scratch.base, f"native-{package}.bin")
    shutil.copy2(exe, private)
    log(f"native build of {package}: {secs:.1f}s -> {exe} (private copy {private})")
    return private


def build_bins(scratch, log):
    """Build the real command line tools of the scratch copy (hulc2model, thor) WITHOUT the verification cfg: the
    appended hook lines are inert, the binaries are the repository's code as it ships. Private copies go to
    <scratch.base>/bin."""
    cmd = ["cargo", "build", "--offline", "-p", "hulc2model", "-p", "bemodel", "--bins"]
    log("tools build: " + " ".join(cmd))
    os.makedirs(BINS_TARGET, exist_ok=True)
    lock = open(os.path.join(BINS_TARGET, ".verif-build.lock"), "w")
    fcntl.flock(lock, fcntl.LOCK_EX)
    try:
        env = env_offline({"CARGO_TARGET_DIR": BINS_TARGET, "RUSTFLAGS": "-Awarnings", "CARGO_PROFILE_DEV_DEBUG": "0"})
        rc, out, secs, to = run(cmd, cwd=scratch.path, env=env, timeout=1800)
        if rc != 0:
            raise Undecided("the command line tools of the scratch copy do not build:\n" + out[-1200:])
        bindir = os.path.join(scratch.base, "bin")
        os.makedirs(bindir, exist_ok=True)
        for b in ("hulc2model", "thor"):
            src = os.path.join(BINS_TARGET, "debug", b)
            if not os.path.exists(src):
                raise Undecided(f"lost anchor: binary {b} was not produced by {' '.join(cmd)}")
            shutil.copy2(src, os.path.join(bindir, b))
        log(f"tools build: {secs:.1f}s -> {bindir}")
        return bindir
    finally:
        fcntl.flock(lock, fcntl.LOCK_UN)
        lock.close()


def run_obligation(scratch, exe, test, tier, jobs, timeout_s, log, replay=None, max_cases=None, progress=False):
    """Run one #[test] obligation of the native enumerator. Returns the parsed summary dict, with
    'crashed'/'timed_out' flags when the process did not finish normally."""
    short = test.split("::")[-1]
    out_file = os.path.join(scratch.base, f"native-{short}.json")
    prog = os.path.join(scratch.base, f"native-{short}.progress")
    for p in [out_file]:
        if os.path.exists(p):
            os.remove(p)
    extra = {"VERIF_OUT": out_file, "VERIF_TIER": tier, "VERIF_JOBS": str(jobs),
             "VERIF_BIN_DIR": os.path.join(scratch.base, "bin"), "VERIF_TMP": os.path.join(scratch.base, "tmp"),
             "VERIF_SEED": os.environ.get("VERIF_SEED", "0"), "VERIF_REPO_ROOT": scratch.path}
    os.makedirs(extra["VERIF_TMP"], exist_ok=True)
    if progress:
        extra["VERIF_PROGRESS"] = prog
    if replay is not None:
        extra["VERIF_REPLAY"] = ",".join(str(x) for x in replay)
    if max_cases:
        extra["VERIF_MAX"] = str(max_cases)
    cmd = [exe, "--exact", test, "--nocapture", "--test-threads", "1"]
    # address-space cap: a runaway allocation (e.g. a non-terminating builder) must die, not swap
    shell = ["bash", "-c", "ulimit -v 12000000; exec \"$@\"", "x"] + cmd
    rc, out, secs, to = run(shell, cwd=scratch.path, env=_env(extra), timeout=timeout_s)
    res = None
    if os.path.exists(out_file):
        try:
            res = json.load(open(out_file))
        except Exception:
            res = None
    if res is None:
        if "running 0 tests" in out:
            raise Undecided(f"native obligation {test} not found in test binary")
        # collect in-progress cases
        inprog = []
        base = os.path.basename(prog)
        for fn in os.listdir(scratch.base):
            if fn.startswith(base + "."):
                try:
                    inprog.append(json.load(open(os.path.join(scratch.base, fn))))
                except Exception:
                    pass
        res = {"obligation": short, "evaluations": 0, "distinct_nontrivial": 0, "failures": [], "n_failures": 0,
               "samples": [], "clauses": {}, "crashed": not to, "timed_out": to, "in_progress": inprog,
               "output": out[-1500:], "rc": rc}
    res["secs"] = round(secs, 2)
    return res
