"""Verus back end: contracts on functions sliced VERBATIM out of the scratch copy of /repo on every run.

Unit `bvh_builder`: bemodel/src/energy/raytracing/bvh.rs
  extracted items : enum Side, enum NodeType, type NodeId, struct TreeElement<T>, fn generate_node_list,
                    fn partition_elements_by_centroid
  added           : everything in /verif/verus/bvh_vspec.py and /verif/verus/bvh_ghost.rs.in (ghost code only)
  dropped         : doc comments outside the function, #[derive(Debug)] on the two enums, everything else in bvh.rs
A verbatim check removes every added line again and compares with the repository text.
"""
import importlib.util
import json
import os
import re
import time

from common import VERIF, Undecided, run

MARK = " //@v"


def _load_vspec():
    p = os.path.join(VERIF, "verus", "bvh_vspec.py")
    spec = importlib.util.spec_from_file_location("bvh_vspec", p)
    m = importlib.util.module_from_spec(spec)
    spec.loader.exec_module(m)
    return m


def _match_braces(text, start):
    """index just past the brace that closes the first '{' at or after `start` (string/char/comment aware enough
    for this file: skips // comments and string literals)."""
    i = text.index("{", start)
    depth = 0
    n = len(text)
    while i < n:
        ch = text[i]
        if text.startswith("//", i):
            i = text.index("\n", i)
            continue
        if ch == '"':
            i += 1
            while text[i] != '"':
                i += 2 if text[i] == "\\" else 1
        elif ch == "{":
            depth += 1
        elif ch == "}":
            depth -= 1
            if depth == 0:
                return i + 1
        i += 1
    raise Undecided("verus extraction: unbalanced braces")


def _slice_item(text, rx, what, braces=True):
    ms = list(re.finditer(rx, text, re.M))
    if len(ms) != 1:
        raise Undecided(f"lost anchor: {what}: /{rx}/ matched {len(ms)} times in bvh.rs")
    s = ms[0].start()
    if braces:
        e = _match_braces(text, s)
    else:
        e = text.index(";", s) + 1
    return text[s:e]


def _norm(t):
    return re.sub(r"\s+", " ", t).strip()


def extract_bvh(scratch):
    vs = _load_vspec()
    src = open(scratch.file("bemodel/src/energy/raytracing/bvh.rs")).read()
    side = _slice_item(src, r"^enum Side \{", "enum Side")
    ntype = _slice_item(src, r"^enum NodeType \{", "enum NodeType")
    nodeid = _slice_item(src, r"^type NodeId = ", "type NodeId", braces=False)
    telem = _slice_item(src, r"^struct TreeElement<T>\(", "struct TreeElement", braces=False)
    fn = _slice_item(src, r"^    fn generate_node_list\(elements: Vec<T>, max_num_elements: usize\) -> Vec<TreeElement<T>> \{",
                     "fn generate_node_list")
    lines = fn.split("\n")
    labels = {}   # generated line text -> label (resolved to line numbers later)
    out = []
    # signature + contract
    sig = lines[0]
    assert sig.rstrip().endswith("{")
    out.append(sig.rstrip()[:-1].rstrip().replace("-> Vec<TreeElement<T>>", "-> (node_list: Vec<TreeElement<T>>)") + MARK + "[sig]")
    out.append("        requires" + MARK)
    for lab, cl in vs.CONTRACT_REQUIRES:
        out.append(f"            {cl}," + MARK + f"[{lab}]")
    out.append("        ensures" + MARK)
    for lab, cl in vs.CONTRACT_ENSURES:
        out.append(f"            {cl}," + MARK + f"[{lab}]")
    out.append("    {" + MARK + "[open]")
    body = lines[1:]
    # resolve insert anchors against the ORIGINAL body lines
    before, after = {}, {}
    for rx, occ, where, text in vs.INSERTS:
        hits = [i for i, l in enumerate(body) if re.search(rx, l)]
        if not hits or (occ > 0 and len(hits) < occ):
            raise Undecided(f"lost anchor: verus insert /{rx}/ (occurrence {occ}) not found in generate_node_list")
        if occ > 0 and len(hits) != max(occ, 1) and occ == 1 and len(hits) > 1:
            raise Undecided(f"lost anchor: verus insert /{rx}/ matched {len(hits)} lines, expected exactly 1")
        i = hits[occ - 1] if occ > 0 else hits[occ]
        (before if where == "before" else after).setdefault(i, []).extend(text.split("\n"))
    wh = [i for i, l in enumerate(body) if re.search(vs.WHILE_ANCHOR, l)]
    if len(wh) != 1:
        raise Undecided(f"lost anchor: while-loop header matched {len(wh)} times")
    for i, l in enumerate(body):
        ind = re.match(r"\s*", l).group(0)
        for t in before.get(i, []):
            out.append(ind + t + MARK)
        if i == wh[0]:
            out.append(l.rstrip()[:-1].rstrip() + MARK + "[while]")
            out.append(ind + "    invariant" + MARK)
            for lab, cl in vs.LOOP_INVARIANTS:
                out.append(ind + f"        {cl}," + MARK + f"[{lab}]")
            out.append(ind + f"    decreases {vs.LOOP_DECREASES[1]}," + MARK + f"[{vs.LOOP_DECREASES[0]}]")
            out.append(ind + "{" + MARK + "[open]")
        else:
            out.append(l)
        for t in after.get(i, []):
            out.append(ind + t + MARK)
    gen_fn = "\n".join(out)

    # ---- verbatim check: drop every added line, undo the two split headers, compare with the repo text ----
    kept = []
    for l in gen_fn.split("\n"):
        if MARK in l:
            tag = l[l.index(MARK) + len(MARK):]
            if tag.startswith("[sig]"):
                kept.append(l[:l.index(MARK)].replace("-> (node_list: Vec<TreeElement<T>>)", "-> Vec<TreeElement<T>>") + " {")
            elif tag.startswith("[while]"):
                kept.append(l[:l.index(MARK)] + " {")
            continue
        kept.append(l)
    if _norm("\n".join(kept)) != _norm(fn):
        raise Undecided("verus extraction: verbatim check failed (generated text minus added lines != repository text)")

    ghost = open(os.path.join(VERIF, "verus", "bvh_ghost.rs.in")).read()
    gen_part = _extract_partition(vs, src)

    text = (vs.HEADER + "\n" + side + "\n\n" + ntype + "\n\n" + nodeid + "\n" + telem + "\n\n" + ghost
            + "\nimpl<T: Bounded> BVH<T> {\n" + vs.EXTERNAL + "\n" + gen_part + "\n\n" + gen_fn + "\n}\n\n} // verus!\nfn main() {}\n")
    return text, fn


def _extract_partition(vs, src):
    """fn partition_elements_by_centroid, verbatim, with its contract and two ghost inserts"""
    fn = _slice_item(src, vs.PARTITION_SIG, "fn partition_elements_by_centroid")
    lines = fn.split("\n")
    out = [lines[0].rstrip()[:-1].rstrip().replace("-> (Vec<T>, Vec<T>)", "-> (r: (Vec<T>, Vec<T>))") + MARK + "[sig]",
           "        ensures" + MARK]
    for lab, cl in vs.PARTITION_ENSURES:
        out.append(f"            {cl}," + MARK + f"[{lab}]")
    out.append("    {" + MARK + "[open]")
    body = lines[1:]
    after, before = {}, {}
    for rx, where, text in vs.PARTITION_INSERTS:
        hits = [i for i, l in enumerate(body) if re.search(rx, l)]
        if len(hits) != 1:
            raise Undecided(f"lost anchor: verus insert /{rx}/ matched {len(hits)} lines in partition_elements_by_centroid")
        (before if where == "before" else after).setdefault(hits[0], []).extend(text.split("\n"))
    for i, l in enumerate(body):
        ind = re.match(r"\s*", l).group(0)
        for t in before.get(i, []):
            out.append(ind + t + MARK)
        out.append(l)
        for t in after.get(i, []):
            out.append(ind + t + MARK)
    gen = "\n".join(out)
    kept = []
    for l in gen.split("\n"):
        if MARK in l:
            if l[l.index(MARK) + len(MARK):].startswith("[sig]"):
                kept.append(l[:l.index(MARK)].replace("-> (r: (Vec<T>, Vec<T>))", "-> (Vec<T>, Vec<T>)") + " {")
            continue
        kept.append(l)
    if _norm("\n".join(kept)) != _norm(fn):
        raise Undecided("verus extraction: verbatim check failed for partition_elements_by_centroid")
    return gen


def _label_for(gen_lines, cited):
    for ln in cited:
        if 1 <= ln <= len(gen_lines):
            l = gen_lines[ln - 1]
            m = re.search(re.escape(MARK) + r"\[(C\d\d[^\]]*)\]", l)
            if m:
                return m.group(1)
    return None


def parse_errors(out, gen_lines, fn_first, fn_last):
    """Split verus stderr into error blocks -> [{msg, lines:[..], clause}]"""
    blocks = re.split(r"\n(?=error)", "\n" + out)
    errs = []
    for b in blocks:
        b = b.strip()
        if not b.startswith("error") or b.startswith("error: aborting"):
            continue
        msg = b.split("\n")[0][len("error"):].lstrip(": ").strip()
        cited = [int(x) for x in re.findall(r"^\s*(\d+) \|", b, re.M)]
        prim = re.search(r"-->\s*[^:\n]+:(\d+):", b)
        if prim:
            cited = [int(prim.group(1))] + cited
        errs.append({"msg": msg, "lines": cited, "text": b[:1200]})
    return errs


def _load(name):
    p = os.path.join(VERIF, "verus", name + ".py")
    spec = importlib.util.spec_from_file_location(name, p)
    m = importlib.util.module_from_spec(spec)
    spec.loader.exec_module(m)
    return m


def extract_traversal(scratch):
    """Unit `bvh_traversal`: enum BVHNode, struct PreorderIter and fn next (of `impl Iterator for PreorderIter`) sliced
    verbatim out of bvh.rs; see verus/traversal_vspec.py for what is added and what is dropped."""
    vs = _load("traversal_vspec")
    src = open(scratch.file("bemodel/src/energy/raytracing/bvh.rs")).read()
    enum = _slice_item(src, r"^pub enum BVHNode<T> \{", "enum BVHNode")
    struct = _slice_item(src, r"^pub struct PreorderIter<'a, T> \{", "struct PreorderIter")
    sig_rx = r"^    fn next\(&mut self\) -> Option<Self::Item> \{"
    fn = _slice_item(src, sig_rx, "fn next")
    lines = fn.split("\n")
    out = ["    fn next(&mut self) -> (res: Option<&'a BVHNode<T>>)" + MARK + "[sig]", "        ensures" + MARK]
    for lab, cl in vs.ENSURES:
        cls = cl.split("\n")
        for i, l in enumerate(cls):
            out.append("            " + l.strip() + ("," if i == len(cls) - 1 else "") + MARK + f"[{lab}]")
    out.append("    {" + MARK + "[open]")
    body = lines[1:]
    before = {}
    for rx, where, text in vs.INSERTS:
        hits = [i for i, l in enumerate(body) if re.search(rx, l)]
        if len(hits) != 1:
            raise Undecided(f"lost anchor: verus insert /{rx}/ matched {len(hits)} lines in PreorderIter::next")
        before.setdefault(hits[0], []).extend(text.split("\n"))
    wh = [i for i, l in enumerate(body) if re.search(vs.WHILE_ANCHOR, l)]
    if len(wh) != 1:
        raise Undecided(f"lost anchor: while-let header of PreorderIter::next matched {len(wh)} times")
    for i, l in enumerate(body):
        ind = re.match(r"\s*", l).group(0)
        for t in before.get(i, []):
            m = re.search(r"// (C\d\d[\w.]*)\s*$", t)
            tag = f"[{m.group(1)}]" if m else ""
            out.append(ind + (t[:m.start()].rstrip() if m else t) + MARK + tag)
        if i == wh[0]:
            out.append(l.rstrip()[:-1].rstrip() + MARK + "[while]")
            out.append(ind + "    invariant" + MARK)
            for lab, cl in vs.LOOP_INVARIANTS:
                out.append(ind + f"        {cl}," + MARK + f"[{lab}]")
            out.append(ind + f"    ensures {vs.LOOP_ENSURES[1]}," + MARK + f"[{vs.LOOP_ENSURES[0]}]")
            out.append(ind + f"    decreases {vs.LOOP_DECREASES[1]}," + MARK + f"[{vs.LOOP_DECREASES[0]}]")
            out.append(ind + "{" + MARK + "[open]")
        else:
            out.append(l)
    gen_fn = "\n".join(out)
    # ---- verbatim check ----
    kept = []
    for l in gen_fn.split("\n"):
        if MARK in l:
            tag = l[l.index(MARK) + len(MARK):]
            if tag.startswith("[sig]"):
                kept.append("    fn next(&mut self) -> Option<Self::Item> {")
            elif tag.startswith("[while]"):
                kept.append(l[:l.index(MARK)] + " {")
            continue
        kept.append(l)
    if _norm("\n".join(kept)) != _norm(fn):
        raise Undecided("verus extraction: verbatim check failed for PreorderIter::next")

    def strip_derive(item):
        return "\n".join(l for l in item.split("\n") if not l.strip().startswith("#[derive"))

    extra = {"BVHNode": [], "PreorderIter": []}
    for sig_rx, res_from, res_to, ensures, owner in vs.EXTRA_FNS:
        f = _slice_item(src, sig_rx, "fn " + sig_rx[:30])
        fl = f.split("\n")
        g = [fl[0].rstrip()[:-1].rstrip().replace(res_from, res_to) + MARK + "[sig]", "        ensures" + MARK]
        for lab, cl in ensures:
            g.append(f"            {cl}," + MARK + f"[{lab}]")
        g.append("    {" + MARK + "[open]")
        g += fl[1:]
        kept = []
        for l in g:
            if MARK in l:
                if l[l.index(MARK) + len(MARK):].startswith("[sig]"):
                    kept.append(l[:l.index(MARK)].replace(res_to, res_from) + " {")
                continue
            kept.append(l)
        if _norm("\n".join(kept)) != _norm(f):
            raise Undecided("verus extraction: verbatim check failed for " + sig_rx)
        extra[owner].append("\n".join(g))

    text = (vs.HEADER + "\n" + strip_derive(enum) + "\n\n" + strip_derive(struct) + "\n" + vs.GHOST
            + "\nimpl<T> BVHNode<T> {\n" + "\n\n".join(extra["BVHNode"]) + "\n}\n"
            + "\nimpl<'a, T> PreorderIter<'a, T> {\n" + vs.ACCESSORS + "\n" + "\n\n".join(extra["PreorderIter"]) + "\n\n" + gen_fn
            + "\n}\n\n} // verus!\nfn main() {}\n")
    return text, vs


def run_traversal(scratch, ob, tier, log):
    text, vs = extract_traversal(scratch)
    path = os.path.join(scratch.base, "bvh_traversal.rs")
    with open(path, "w") as f:
        f.write(text)
    gen_lines = text.split("\n")
    cmd = ["verus", path, "--multiple-errors", "20", "--rlimit", "30", "--time", "--triggers-mode", "silent"]
    log("verus: " + " ".join(cmd))
    rc, out, secs, to = run(cmd, cwd=scratch.base, timeout=600)
    with open(os.path.join(scratch.base, "bvh_traversal.verus.log"), "w") as f:
        f.write(out)
    m = re.search(r"verification results:: (\d+) verified, (\d+) errors", out)
    if to or not m:
        raise Undecided("verus produced no result for the traversal unit (timeout=%s)\n%s" % (to, out[-1500:]))
    verified, nerr = int(m.group(1)), int(m.group(2))
    errs = parse_errors(out, gen_lines, 0, 0)
    labels = [lab for lab, _ in vs.ENSURES] + [vs.LOOP_ENSURES[0], vs.LOOP_DECREASES[0], "C13.traversal.inv", "C13.traversal.children_pushed", "C13.traversal.no_panic"] + list(getattr(vs, "THEOREMS", [])) + sorted({lab for f in vs.EXTRA_FNS for lab, _ in f[3]})
    failed, undecided = {}, []
    for e in errs:
        msg = e["msg"]
        if "rlimit" in msg.lower() or "resource limit" in msg.lower() or "timed out" in msg.lower():
            undecided.append(msg)
            continue
        lab = _label_for(gen_lines, e["lines"][1:] + e["lines"][:1])
        if "decreases not satisfied" in msg:
            lab = vs.LOOP_DECREASES[0]
        elif ("precondition not satisfied" in msg or "arithmetic underflow/overflow" in msg) and not (
                e["lines"] and 1 <= e["lines"][0] <= len(gen_lines) and MARK in gen_lines[e["lines"][0] - 1]):
            # a call or an operation of the real code outside its precondition (an added lemma call is a hint instead)
            lab = "C13.traversal.no_panic"
        elif "precondition not satisfied" in msg:
            lab = None
        src_lines = [gen_lines[l - 1].split(MARK)[0].strip() for l in e["lines"][:3] if 1 <= l <= len(gen_lines)]
        if lab is None:
            undecided.append(f"proof hint failed: {msg}: {' <- '.join(src_lines)}")
            continue
        failed.setdefault(lab, []).append(f"{msg}: {' <- '.join(src_lines)}")
    results = []
    for lab in labels:
        rec = {"obligation": ob["name"], "clause": lab, "backend": "verus", "kind": "deductive", "bound": None,
               "function": ("ghost theorem over the contract of PreorderIter::next (spec function step; no executable code)" if lab in getattr(vs, "THEOREMS", [])
                            else "BVHNode::aabb (verbatim extraction)" if lab == "C13.traversal.node_box"
                            else "PreorderIter::new (verbatim extraction)" if lab == "C13.traversal.starts_at_root"
                            else "PreorderIter::next (verbatim extraction; AABB::intersects by contract over an uninterpreted hit predicate)"),
               "secs": round(secs, 2), "solver_s": round(secs, 2), "checks": verified}
        if lab in failed:
            rec["status"] = "failed"
            rec["failures"] = [{"clause": lab, "detail": "; ".join(failed[lab])[:600]}]
        elif undecided:
            rec["status"] = "undecided"
            rec["detail"] = "; ".join(undecided)[:300]
        else:
            rec["status"] = "success"
        results.append(rec)
    if nerr > 0 and not failed and not undecided:
        raise Undecided("verus reported errors that could not be attributed:\n" + out[-1500:])
    log(f"verus bvh_traversal: {verified} functions verified, {nerr} errors, {secs:.1f}s; failed obligations: {sorted(failed)}")
    return results


def run_unit(scratch, ob, tier, log):
    if ob["name"] == "bvh_traversal":
        return run_traversal(scratch, ob, tier, log)
    if ob["name"] != "bvh_builder":
        raise Undecided("unknown verus unit " + ob["name"])
    text, fn = extract_bvh(scratch)
    path = os.path.join(scratch.base, "bvh_builder.rs")
    with open(path, "w") as f:
        f.write(text)
    gen_lines = text.split("\n")
    rlimit = "60" if tier == "thorough" else "30"
    cmd = ["verus", path, "--multiple-errors", "20", "--rlimit", rlimit, "--time"]
    log("verus: " + " ".join(cmd))
    t0 = time.time()
    rc, out, secs, to = run(cmd, cwd=scratch.base, timeout=600)
    with open(os.path.join(scratch.base, "bvh_builder.verus.log"), "w") as f:
        f.write(out)
    m = re.search(r"verification results:: (\d+) verified, (\d+) errors", out)
    if to or not m:
        if "error[E" in out or "error: expected" in out or "error: cannot find" in out:
            raise Undecided("verus rejected the extracted text (syntax / unsupported construct):\n" + out[-1500:])
        raise Undecided("verus produced no result (timeout=%s)\n%s" % (to, out[-800:]))
    verified, nerr = int(m.group(1)), int(m.group(2))
    tm = re.search(r"total-time:\s*(\d+)", out)
    smt = re.search(r"smt-run:\s*(\d+)", out) or re.search(r"total smt.*?(\d+)", out)
    errs = parse_errors(out, gen_lines, 0, 0)
    vs = _load_vspec()
    part_first = next((i + 1 for i, l in enumerate(gen_lines) if "fn partition_elements_by_centroid(" in l and MARK in l), 0)
    part_last = next((i + 1 for i, l in enumerate(gen_lines) if i + 1 > part_first and l.rstrip() == "    }"), 0) if part_first else 0
    all_labels = [lab for lab, _ in vs.CONTRACT_ENSURES] + [vs.LOOP_DECREASES[0], "C13.builder.arith_safe", "C13.builder.unwrap_safe"] \
        + sorted({lab for lab, _ in vs.LOOP_INVARIANTS if lab != "C13.builder.inv"}) + [lab for lab, _ in vs.PARTITION_ENSURES] + ["C13.partition.no_panic"]
    failed = {}
    undecided = []
    for e in errs:
        msg = e["msg"]
        if "rlimit" in msg.lower() or "resource limit" in msg.lower() or "timed out" in msg.lower():
            undecided.append(msg)
            continue
        lab = _label_for(gen_lines, e["lines"][1:] + e["lines"][:1])
        prim = e["lines"][0] if e["lines"] else 0
        in_partition = part_first <= prim <= part_last
        if in_partition and MARK not in gen_lines[prim - 1] and ("precondition not satisfied" in msg or "arithmetic underflow/overflow" in msg or "possible division by zero" in msg):
            # a library call of the real code (split_off, append ...) outside its precondition, or an overflow: a panic
            lab = "C13.partition.no_panic"
        elif "arithmetic underflow/overflow" in msg or "possible division by zero" in msg:
            lab = "C13.builder.arith_safe"
        elif "decreases not satisfied" in msg or "must have a decreases" in msg:
            lab = "C13.builder.terminates"
        elif lab is None and "precondition not satisfied" in msg and re.search(r"unwrap\(\)", e["text"]):
            lab = "C13.builder.unwrap_safe"
        src_lines = [gen_lines[l - 1].split(MARK)[0].strip() for l in e["lines"][:3] if 1 <= l <= len(gen_lines)]
        if lab is None:
            # a proof hint (an added assert / lemma call) no longer goes through: nothing is known about the clauses
            # that rest on it - undecided, never an alarm
            undecided.append(f"proof hint failed: {msg}: {' <- '.join(src_lines)}")
            continue
        failed.setdefault(lab, []).append(f"{msg}: {' <- '.join(src_lines)}")
    soft_undecided = {}
    for lab in list(failed):
        if lab in getattr(vs, "PARTITION_SOFT", []):
            soft_undecided[lab] = "the proof of this clause did not go through (it rests on a hint about how the halves are re-split); nothing is known: " + "; ".join(failed.pop(lab))[:300]
    results = []
    for lab in all_labels:
        rec = {"obligation": ob["name"], "clause": lab, "backend": "verus", "kind": "deductive", "bound": None,
               "function": ("BVH::partition_elements_by_centroid (verbatim extraction; the plane step - f32 mean + Iterator::partition - assumed to put every element on exactly one side)"
                            if lab.startswith("C13.partition.") else
                            "BVH::generate_node_list (verbatim extraction; calls the partition step through its verified contract)"),
               "secs": round(secs, 2), "solver_s": round(secs, 2), "checks": verified}
        if lab in failed:
            rec["status"] = "failed"
            rec["failures"] = [{"clause": lab, "detail": "; ".join(failed[lab])[:600]}]
        elif lab in soft_undecided:
            rec["status"] = "undecided"
            rec["detail"] = soft_undecided[lab]
        elif undecided:
            rec["status"] = "undecided"
            rec["detail"] = "; ".join(undecided)[:300]
        else:
            rec["status"] = "success"
        results.append(rec)
    if nerr > 0 and not failed and not undecided and not soft_undecided:
        raise Undecided("verus reported errors that could not be attributed:\n" + out[-1500:])
    log(f"verus bvh_builder: {verified} functions verified, {nerr} errors, {secs:.1f}s; failed obligations: {sorted(failed)}")
    return results
