"""Verus back end (filled in by verus units)."""
from common import Undecided


def run_unit(scratch, ob, tier, log):
    raise Undecided("verus back end not built yet")
