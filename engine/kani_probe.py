#!/usr/bin/env python3
"""Developer tool (not a manifest command): time a set of Kani harnesses on a scratch copy.
usage: kani_probe.py <pkg> <timeout_s> <jobs> harness..."""
import sys, os, json
sys.path.insert(0, os.path.dirname(os.path.abspath(__file__)))
import common, run_kani
pkg, to, jobs = sys.argv[1], int(sys.argv[2]), int(sys.argv[3])
hs = sys.argv[4:]
tag = os.environ.get("PROBE_TAG", "PROBE")
with common.Scratch(tag) as s:
    common.inject(s, lambda m: None)
    try:
        res = run_kani.run_harnesses(s, pkg, hs, to, jobs, lambda m: print(m, file=sys.stderr))
    except common.Undecided as e:
        print("UNDECIDED", str(e)[:3000]); sys.exit(2)
    for h, r in res.items():
        print(h, r["status"], "secs=%s solver=%s checks=%s" % (r.get("secs"), r.get("solver_s"), r.get("checks")), r.get("detail") or "", [f["description"][:100] for f in r.get("failed", [])][:4])
