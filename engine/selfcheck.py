#!/usr/bin/env python3
"""Developer tool: before committing /verif, make sure every evidence file is the record of a clean run on the
CURRENT /repo tree (no violation, nothing undecided, discharged == obligations, file hashes equal to /repo's)."""
import glob, hashlib, json, os, sys

bad = []
for f in sorted(glob.glob("/verif/evidence/*.json")):
    d = json.load(open(f))
    c = d["coverage"]
    pid = d["property_id"]
    if d.get("violations"):
        bad.append(f"{pid}: records {d['violations']} violations")
    if d.get("undecided"):
        bad.append(f"{pid}: records undecided obligations")
    if c["obligations"] != c["discharged"]:
        bad.append(f"{pid}: discharged {c['discharged']} != obligations {c['obligations']}")
    for rel, h in (c.get("repo_files_sha256") or {}).items():
        p = os.path.join("/repo", rel)
        if not os.path.exists(p) or hashlib.sha256(open(p, "rb").read()).hexdigest() != h:
            bad.append(f"{pid}: {rel} differs from the file the evidence was produced on")
            break
print("\n".join(bad) if bad else "evidence files are clean records of the current /repo tree")
sys.exit(1 if bad else 0)
