#!/usr/bin/env python3
"""Warm the build caches: compile /repo's crates + dependencies under cargo-kani and natively (with the contracts
injected) once, so that the per-property checks only rebuild what changed. Nothing here decides a property."""
import os
import sys
import time

sys.path.insert(0, os.path.dirname(os.path.abspath(__file__)))
import common
import run_kani
import run_native


def log(m):
    print("[setup] " + m, flush=True)


def main():
    t0 = time.time()
    os.makedirs(common.CACHE, exist_ok=True)
    os.makedirs(common.SCRATCH_ROOT, exist_ok=True)
    os.makedirs(common.EVIDENCE_DIR, exist_ok=True)
    ok = True
    with common.Scratch("SETUP") as s:
        common.inject(s, log)
        for pkg in ("bemodel", "climate", "hulc", "hulc2model"):
            try:
                run_native.build(s, pkg, log)
                if pkg == "hulc2model":
                    run_native.build_bins(s, log)
            except common.Undecided as e:
                log("native build failed: " + str(e)[:500])
                ok = False
        env = common.env_offline({"CARGO_TARGET_DIR": common.KANI_TARGET})
        env.pop("RUSTFLAGS", None)
        for pkg in ("bemodel", "climate", "hulc"):
            cmd = ["cargo", "kani", "-p", pkg] + run_kani.KANI_FLAGS + ["--only-codegen"]
            rc, out, secs, to = common.run(cmd, cwd=s.path, env=env, timeout=1800)
            log(f"kani codegen of {pkg}: rc={rc} {secs:.0f}s")
            if rc != 0:
                log(out[-1500:])
                ok = False
    rc, out, secs, to = common.run(["verus", "--version"], timeout=60)
    log("verus: " + out.strip().split("\n")[0])
    log(f"done in {time.time() - t0:.0f}s")
    return 0 if ok else 1


if __name__ == "__main__":
    sys.exit(main())
