"""Shared plumbing: paths, scratch copy of /repo, contract injection, evidence, findings.

Nothing here decides a property; it only moves text and runs tools.
"""
import fcntl
import hashlib
import json
import os
import re
import shutil
import subprocess
import sys
import time

VERIF = os.path.dirname(os.path.dirname(os.path.abspath(__file__)))
REPO = os.environ.get("VERIF_REPO", "/repo")
SCRATCH_ROOT = os.environ.get("VERIF_SCRATCH", "/var/tmp/verif")  # developer runs against a mutated copy use another root
CACHE = os.environ.get("VERIF_CACHE", os.path.join(VERIF, ".cache"))
KANI_TARGET = os.path.join(CACHE, "kani-target")
NATIVE_TARGET = os.path.join(CACHE, "native-target")
BINS_TARGET = os.path.join(CACHE, "bins-target")
REPLAY_DIR = os.environ.get("VERIF_REPLAY_DIR", os.path.join(VERIF, "replay"))
EVIDENCE_DIR = os.environ.get("VERIF_EVIDENCE_DIR", os.path.join(VERIF, "evidence"))
FINDINGS_FILE = os.path.join(VERIF, "known-findings.txt")

EXIT_OK, EXIT_VIOLATION, EXIT_UNDECIDED = 0, 1, 2


def env_offline(extra=None):
    env = dict(os.environ)
    env["CARGO_NET_OFFLINE"] = "true"
    env.setdefault("CARGO_TERM_COLOR", "never")
    if extra:
        env.update(extra)
    return env


class Undecided(Exception):
    """Tool limit, lost anchor, build failure caused by the injection... never a violation."""


# ---------------------------------------------------------------------------
# scratch copy
# ---------------------------------------------------------------------------

class Scratch:
    """A byte-for-byte copy of /repo's working tree at a fixed path per property.

    The path is fixed (per property id) so cargo's incremental artefacts in the
    shared target directories stay valid between runs; an flock serialises two
    runs of the same property. The copy is refreshed with rsync --delete on
    every run, so it always reflects the current working tree of /repo.
    """

    def __init__(self, prop_id):
        self.prop_id = prop_id
        self.base = os.path.join(SCRATCH_ROOT, prop_id)
        self.path = os.path.join(self.base, "repo")
        self._lock = None

    def __enter__(self):
        os.makedirs(self.base, exist_ok=True)
        self._lock = open(os.path.join(self.base, ".lock"), "w")
        fcntl.flock(self._lock, fcntl.LOCK_EX)
        self.sync()
        return self

    def __exit__(self, *a):
        # the copy is removed after every run (disk hygiene); build output lives in CACHE
        shutil.rmtree(self.path, ignore_errors=True)
        fcntl.flock(self._lock, fcntl.LOCK_UN)
        self._lock.close()

    def sync(self):
        os.makedirs(self.path, exist_ok=True)
        cmd = ["rsync", "-a", "--delete", "--checksum",
               "--exclude", "/target", "--exclude", "/.git", "--exclude", "*.orig", "--exclude", "*.rej",
               REPO + "/", self.path + "/"]
        subprocess.run(cmd, check=True)
        self._touch_changed()

    def _touch_changed(self):
        """cargo decides freshness by mtime. rsync preserves /repo's mtimes, so a file edited BEFORE an earlier build
        of this scratch path finished would look older than that build and be skipped. Compare content hashes with
        the previous run of this property and give every changed source file the current time."""
        man_path = os.path.join(self.base, "hashes.json")
        try:
            old = json.load(open(man_path))
        except Exception:
            old = {}
        new = {}
        now = time.time()
        for dp, dns, fns in os.walk(self.path):
            dns[:] = [d for d in dns if d not in ("target", ".git", "data", "tests_data")]
            for fn in fns:
                if not fn.endswith((".rs", ".toml", ".lock", ".met")):
                    continue
                p = os.path.join(dp, fn)
                rel = os.path.relpath(p, self.path)
                with open(p, "rb") as f:
                    h = hashlib.sha256(f.read()).hexdigest()
                new[rel] = h
                if rel in old and old[rel] != h:
                    os.utime(p, (now, now))
        write_json(man_path, new)
        # one hash over every source file: exported as VERIF_SRC_HASH to rustc (the contract files read it with
        # option_env!), so cargo's env tracking forces a rebuild whenever any source differs from the last build
        self.src_hash = hashlib.sha256(json.dumps(sorted(new.items())).encode()).hexdigest()[:16]
        os.environ["VERIF_SRC_HASH"] = self.src_hash

    def file(self, rel):
        return os.path.join(self.path, rel)

    def sha(self, rel):
        with open(self.file(rel), "rb") as f:
            return hashlib.sha256(f.read()).hexdigest()


# ---------------------------------------------------------------------------
# injection: only ever ADDS lines to the scratch copy
# ---------------------------------------------------------------------------

# module hooks: (file in repo, module name, contract file under /verif/contracts)
MODULE_HOOKS = [
    ("bemodel/src/lib.rs", "verif_root", "root.rs"),
    ("bemodel/src/energy/mod.rs", "verif_energy", "energy.rs"),
    ("bemodel/src/energy/transmittance.rs", "verif_transmittance", "transmittance.rs"),
    ("bemodel/src/energy/raytracing/bvh.rs", "verif_bvh", "bvh.rs"),
    ("bemodel/src/energy/raytracing/ray.rs", "verif_ray", "ray.rs"),
    ("bemodel/src/convert/from_ctehexml.rs", "verif_convert", "convert.rs"),
    ("climate/src/lib.rs", "verif_climate", "climate.rs"),
    ("hulc/src/bdl/envelope/geom.rs", "verif_hulc_geom", "hulc_geom.rs"),
    ("hulc2model/src/lib.rs", "verif_hulc2model", "hulc2model.rs"),
    ("hulc/src/bdl/mod.rs", "verif_hulc_bdl", "hulc_bdl.rs"),
]

# developer switch: extra hooks "rel:mod:file,..." tried out before they are registered above
for _h in filter(None, os.environ.get("VERIF_DEV_HOOKS", "").split(",")):
    MODULE_HOOKS.append(tuple(_h.split(":")))

CFG = "any(kani, verif_native)"


def load_anchors():
    p = os.path.join(VERIF, "contracts", "anchors.json")
    with open(p) as f:
        return json.load(f)


def _stable_mtime(scratch, path, memo):
    """Give an injected file the mtime it had the last time it held exactly this content, so cargo's
    fingerprints stay fresh when nothing changed (content hash decides, never the clock)."""
    with open(path, "rb") as f:
        h = hashlib.sha256(f.read()).hexdigest()
    rec = memo.get(path)
    if rec and rec[0] == h:
        os.utime(path, (rec[1], rec[1]))
    else:
        memo[path] = [h, os.stat(path).st_mtime]


def inject(scratch, log):
    """Copy the contract sources into <scratch>/.verif_contracts, append module hooks and insert attribute
    contracts above anchored functions. Only ever ADDS lines to repository files.

    Returns {repo file touched: sha256 of the ORIGINAL text}. Raises Undecided on a lost anchor.
    """
    memo_path = os.path.join(scratch.base, "mtimes.json")
    try:
        memo = json.load(open(memo_path))
    except Exception:
        memo = {}
    cdst = os.path.join(scratch.path, ".verif_contracts")
    os.makedirs(cdst, exist_ok=True)
    csrc = os.path.join(VERIF, "contracts")
    for fn in sorted(os.listdir(csrc)):
        if fn.endswith(".rs"):
            shutil.copy2(os.path.join(csrc, fn), os.path.join(cdst, fn))
            _stable_mtime(scratch, os.path.join(cdst, fn), memo)
    touched = {}
    hooks = 0
    for rel, modname, cfile in MODULE_HOOKS:
        src = os.path.join(cdst, cfile)
        if not os.path.exists(src):
            continue
        path = scratch.file(rel)
        if not os.path.exists(path):
            raise Undecided(f"lost anchor: file {rel} no longer exists")
        touched[rel] = scratch.sha(rel)
        with open(path, "a") as f:
            f.write(f"\n#[cfg({CFG})]\n#[path = \"{src}\"]\nmod {modname};\n")
        hooks += 1
    anchors = load_anchors()
    by_file = {}
    for a in anchors:
        by_file.setdefault(a["file"], []).append(a)
    for rel, items in by_file.items():
        path = scratch.file(rel)
        if not os.path.exists(path):
            raise Undecided(f"lost anchor: file {rel} no longer exists")
        touched.setdefault(rel, scratch.sha(rel))
        with open(path) as f:
            lines = f.read().split("\n")
        inserts = []
        for a in items:
            rx = re.compile(a["fn_regex"])
            hits = [i for i, l in enumerate(lines) if rx.search(l)]
            if "after_regex" in a:
                start_rx = re.compile(a["after_regex"])
                starts = [i for i, l in enumerate(lines) if start_rx.search(l)]
                if len(starts) != 1:
                    raise Undecided(f"lost anchor: {rel}: context /{a['after_regex']}/ matched {len(starts)} times")
                hits = [i for i in hits if i > starts[0]][:1]
            if len(hits) != 1:
                raise Undecided(f"lost anchor: {rel}: /{a['fn_regex']}/ matched {len(hits)} times")
            i = hits[0]
            indent = re.match(r"\s*", lines[i]).group(0)
            inserts.append((i, [indent + s for s in a["attrs"]]))
        for i, attrs in sorted(inserts, reverse=True):
            lines[i:i] = attrs
        with open(path, "w") as f:
            f.write("\n".join(lines))
    for rel in touched:
        _stable_mtime(scratch, scratch.file(rel), memo)
    write_json(memo_path, memo)
    log(f"injected {hooks} module hooks, {len(anchors)} attribute contracts into scratch copy")
    return touched


# ---------------------------------------------------------------------------
# findings
# ---------------------------------------------------------------------------

def load_findings():
    """known-findings.txt: lines 'finding: property=<id> obligation=<o> [input=<text>] <what>'
    and 'fixed: property=<id> <commit> <what>'. Only 'finding:' lines suppress."""
    out = []
    if not os.path.exists(FINDINGS_FILE):
        return out
    for line in open(FINDINGS_FILE):
        line = line.strip()
        if not line.startswith("finding:"):
            continue
        m = re.match(r"finding:\s+property=(\S+)\s+obligation=(\S+)(?:\s+input=(\S+))?\s+(.*)", line)
        if m:
            out.append({"property": m.group(1), "obligation": m.group(2), "input": m.group(3), "text": m.group(4)})
    return out


def finding_for(findings, prop, obligation, input_text):
    for f in findings:
        if f["property"] != prop or f["obligation"] != obligation:
            continue
        if f["input"] is None or (input_text is not None and f["input"] == input_text):
            return f
    return None


# ---------------------------------------------------------------------------
# misc
# ---------------------------------------------------------------------------

def run(cmd, cwd=None, env=None, timeout=None, log=None):
    """Run a command, capture combined output. Returns (rc, output, seconds, timed_out)."""
    t0 = time.time()
    try:
        p = subprocess.run(cmd, cwd=cwd, env=env, timeout=timeout, stdout=subprocess.PIPE,
                           stderr=subprocess.STDOUT, text=True, errors="replace")
        return p.returncode, p.stdout, time.time() - t0, False
    except subprocess.TimeoutExpired as e:
        out = e.stdout or ""
        if isinstance(out, bytes):
            out = out.decode(errors="replace")
        return -9, out, time.time() - t0, True


def write_json(path, obj):
    os.makedirs(os.path.dirname(path), exist_ok=True)
    tmp = path + ".tmp"
    with open(tmp, "w") as f:
        json.dump(obj, f, indent=1, sort_keys=False)
        f.write("\n")
    os.replace(tmp, path)


def scan_assumptions():
    """Mechanical scan of the contract sources for every assumption-introducing construct."""
    found = []
    pats = [r"kani::assume", r"external_body", r"assume_specification", r"\badmit\(", r"\bassume\(",
            r"kani::stub\b", r"stub_verified", r"#\[verifier::external", r"unsafe\b"]
    roots = [os.path.join(VERIF, "contracts"), os.path.join(VERIF, "verus")]
    for root in roots:
        for dp, _, fns in os.walk(root):
            for fn in fns:
                if not fn.endswith((".rs", ".vspec", ".json")):
                    continue
                p = os.path.join(dp, fn)
                for n, line in enumerate(open(p, errors="replace"), 1):
                    s = line.strip()
                    if s.startswith("//"):
                        continue
                    for pat in pats:
                        if re.search(pat, line):
                            found.append(f"{os.path.relpath(p, VERIF)}:{n}: {s[:140]}")
                            break
    return found
